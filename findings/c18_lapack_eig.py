"""Witness of the known finding C18 / lapack_eig_inaccurate_on_reduced_matrix (run: PYTHONPATH=/repo /venv/bin/python findings/c18_lapack_eig.py).
AMUSEt (HOSVD variant) on 9 snapshots, basis [Identity(0)] x [three box functions] x [Identity(0), Cos(0)], index sets x = (5,2,1,7),
y = (3,0,1,4): the returned eigentensor of the (numerically) zero eigenvalue is not an eigenvector of the EDMD matrix (relative
residual 7e-3); numpy.linalg.eig returns the unit vector e_1 for the reduced matrix, whose first ROW is rounding noise (1e-18, 1e-34)."""
import numpy as np
import scikit_tt.data_driven.transform as tr
import scikit_tt.data_driven.tedmd as te

Z = np.array([[float.fromhex(h) for h in row] for row in [['0x1.31569848c3f08p+0', '0x1.70700e0481228p-2', '-0x1.38807edee1ba1p+0', '-0x1.c7c9cbf427260p-4', '0x1.cd70dcab1ef8cp-2', '-0x1.31a142f875b31p-1', '-0x1.fb1070731a0dfp-1', '-0x1.efa4a68cf6f40p-1', '0x1.6b46f05a6b1ecp+0'], ['0x1.4e33bfe0a1b48p-2', '-0x1.0c90e496a4bb4p+0', '-0x1.d677c2168495fp-1', '0x1.72f2750b891fcp-1', '-0x1.a238b2a769e82p-1', '-0x1.d836bd39ffe93p-1', '-0x1.d3ee59df6666cp-2', '0x1.fd61a80b12120p-3', '0x1.574b5db26120cp-1']]])  # (bit-exact: the effect depends on the last bits)
bl = [[tr.Identity(0)],
      [tr.IndicatorFunction(1, 0.325949007999518, 2.214215726419121), tr.IndicatorFunction(0, -0.9433228801724116, 0.38209735821924484),
       tr.IndicatorFunction(1, -0.19997405707004323, 0.7420812961514567)],
      [tr.Identity(0), tr.Cos(0, 1.6548105226962246)]]
x, y = np.array([5, 2, 1, 7]), np.array([3, 0, 1, 4])
m = Z.shape[1]
Psi = np.array([[bl[0][0](Z[:, j]) * f2(Z[:, j]) * f3(Z[:, j]) for j in range(m)] for f2 in bl[1] for f3 in bl[2]])
K = np.linalg.pinv(Psi[:, x].T, rcond=1e-10) @ Psi[:, y].T
lam, T = te.amuset_hosvd(Z, x, y, bl, threshold=1e-8)
Xi = T.full().reshape(Psi.shape[0], -1)
R = K @ Xi - Xi @ np.diag(lam)
print('eigenvalues', lam)
print('relative residual of the eigen-equation per column', np.max(np.abs(R), axis=0) / (np.max(np.abs(Xi)) * np.linalg.norm(K, 2)))
