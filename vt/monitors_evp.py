"""M6 environment oracle for the eigen-solver (projected pencil + deflation terms) and the end-to-end contract on
evp.als / evp.power_method (C08)."""
import importlib

import numpy as np

from . import core, probe
from .contracts_api import ApiImmut
from .contracts_tt import _is_tt
from .dense import dense_cores, mat, tt_consistent
from .monitors_sle import frame

evp = None


def vec_of(t):
    return mat(dense_cores(t.cores)).reshape(-1)


class MicroMatrices(probe.Contract):
    api = 'evp.__construct_micro_matrices'

    def post(self, st, res, args, kwargs):
        i, trains, stacks, shift = args[0], args[1], args[2], args[3]
        c = core.ctx()
        op = trains.operator
        sol = trains.solution
        if list(op.row_dims) != list(op.col_dims) or int(np.prod(op.row_dims)) > 700:
            return
        cores = list(sol.cores)
        if any(getattr(x, 'ndim', 0) != 4 for k, x in enumerate(cores) if k != i):
            c.skip('evp_frame_cores_not_4way')
            return
        micro_op, micro_gevp = res
        A = mat(dense_cores(op.cores))
        cores_i = list(cores)
        if cores_i[i].ndim != 4:
            cores_i[i] = cores_i[i][..., 0]
        P = frame(cores_i, i, 1)
        want = P.conj().T @ A @ P
        for p in trains.previous:
            t = P.conj().T @ vec_of(p)
            want = want + shift * np.outer(t, t.conj())
        sc = float(np.linalg.norm(P)) ** 2 * (float(np.linalg.norm(A)) + abs(shift) * sum(float(np.linalg.norm(vec_of(p))) ** 2 for p in trains.previous))
        cplx = np.iscomplexobj(A) or np.iscomplexobj(P)
        site = 'first' if i == 0 else 'last' if i == op.order - 1 else 'inner'
        tags = (['complex'] if cplx else []) + ['site=' + site] + (['deflation'] if len(trains.previous) else [])
        err = float(np.max(np.abs(micro_op - want))) if micro_op.shape == want.shape else np.inf
        ok = err <= 1e-9 * max(sc, 1e-300)
        c.check(self.api, 'equals_projected_operator', ok, tags if not ok else (), {'site': i, 'order': op.order, 'err': err, 'scale': sc, 'ranks': list(sol.ranks)}, prop='C08')
        if trains.operator_gevp is not None:
            B = mat(dense_cores(trains.operator_gevp.cores))
            wantb = P.conj().T @ B @ P
            scb = float(np.linalg.norm(P)) ** 2 * float(np.linalg.norm(B))
            okb = micro_gevp is not None and micro_gevp.shape == wantb.shape and float(np.max(np.abs(micro_gevp - wantb))) <= 1e-9 * max(scb, 1e-300)
            c.check(self.api, 'equals_projected_right_operator', okb, tags if not okb else (), {'site': i, 'order': op.order}, prop='C08')
        herm = float(np.max(np.abs(A - A.conj().T))) <= 1e-12 * max(float(np.max(np.abs(A))), 1e-300)
        if herm and np.isreal(shift):
            okh = float(np.max(np.abs(micro_op - micro_op.conj().T))) <= 1e-9 * max(sc, 1e-300)
            c.check(self.api, 'hermitian_for_hermitian_operator', okh, tags if not okh else (), {'site': i}, prop='C08')


class EvpAls(ApiImmut):
    freeze = True  # the oracle sees the arguments as they were at call entry; arrays / lists rewritten by the call are reported
    input_prop = 'C08'
    def __init__(self):
        ApiImmut.__init__(self, 'evp.als')

    def post(self, st, res, args, kwargs):
        ApiImmut.post(self, st, res, args, kwargs)
        if st is None:
            return
        names = ['operator', 'initial_guess', 'previous', 'shift', 'operator_gevp', 'number_ev', 'repeats', 'conv_eps', 'solver', 'sigma', 'real']
        v = {'previous': [], 'shift': 0, 'operator_gevp': None, 'number_ev': 1, 'repeats': 1, 'conv_eps': 1e-10, 'solver': 'eig', 'sigma': 1, 'real': True}
        for k, a in enumerate(args):
            v[names[k]] = a
        v.update(kwargs)
        c = core.ctx()
        op, Bop = v['operator'], v['operator_gevp']
        if list(op.row_dims) != list(op.col_dims) or int(np.prod(op.row_dims)) > 700:
            return
        try:
            lam, xs, its = res
        except Exception:
            c.check(self.api, 'returns_triple', False, prop='C08')
            return
        nev = v['number_ev']
        lams = [lam] if nev == 1 else list(lam)
        xs = [xs] if nev == 1 else list(xs)
        A = mat(dense_cores(op.cores))
        for p in v['previous']:
            pv = vec_of(p)
            A = A + v['shift'] * np.outer(pv, pv.conj())
        B = mat(dense_cores(Bop.cores)) if Bop is not None else None
        herm = float(np.max(np.abs(A - A.conj().T))) <= 1e-12 * max(float(np.max(np.abs(A))), 1e-300)
        cplx = np.iscomplexobj(A) or (B is not None and np.iscomplexobj(B))
        tags = ['solver=' + str(v['solver']), 'nev=%d' % nev if nev <= 1 else 'nev>1'] + (['complex'] if cplx else []) + (['gevp'] if B is not None else []) + \
               (['deflation'] if v['previous'] else [])
        nA = float(np.linalg.norm(A, 2))
        for k, (l, x) in enumerate(zip(lams, xs)):
            if not (_is_tt(x) and tt_consistent(x)[0]):
                continue
            xv = vec_of(x)
            den = np.vdot(xv, (B @ xv) if B is not None else xv)
            if abs(den) < 1e-300:
                continue
            rq = np.vdot(xv, A @ xv) / den
            want = np.real(rq) if v['real'] else rq
            c.check(self.api, 'eigenvalue_is_rayleigh_quotient', abs(l - want) <= 1e-8 * max(nA, 1e-300) * (1 if B is None else np.linalg.cond(B)), tags,
                    {'k': k, 'reported': l, 'rayleigh': rq, 'dims': list(op.row_dims), 'ranks': list(x.ranks)}, prop='C08')
            if B is None:
                c.check(self.api, 'unit_norm', abs(float(np.linalg.norm(xv)) - 1.0) <= 1e-8, tags, {'k': k, 'norm': float(np.linalg.norm(xv))}, prop='C08')
            if herm:
                if B is None:
                    lmax = float(np.linalg.eigvalsh((A + A.conj().T) / 2)[-1])
                else:
                    import scipy.linalg as sla
                    with probe.oracle():
                        lmax = float(sla.eigh((A + A.conj().T) / 2, (B + B.conj().T) / 2, eigvals_only=True)[-1])
                c.check(self.api, 'not_above_largest_eigenvalue', np.real(l) <= lmax + 1e-8 * max(nA, 1e-300) * (1 if B is None else np.linalg.cond(B)), tags,
                        {'k': k, 'reported': l, 'lambda_max': lmax}, prop='C08')
        c.sig(self.api, v['solver'], nev, int(v['repeats']), list(op.row_dims), list(v['initial_guess'].ranks), bool(cplx), B is not None, len(v['previous']))


class PowerMethod(ApiImmut):
    freeze = True  # the oracle sees the arguments as they were at call entry; arrays / lists rewritten by the call are reported
    input_prop = 'C08'
    def __init__(self):
        ApiImmut.__init__(self, 'evp.power_method')

    def post(self, st, res, args, kwargs):
        ApiImmut.post(self, st, res, args, kwargs)
        if st is None:
            return
        names = ['operator', 'initial_guess', 'operator_gevp', 'repeats', 'sigma']
        v = {'operator_gevp': None, 'repeats': 10, 'sigma': 0.999}
        for k, a in enumerate(args):
            v[names[k]] = a
        v.update(kwargs)
        c = core.ctx()
        op, Bop = v['operator'], v['operator_gevp']
        if int(np.prod(op.row_dims)) > 700:
            return
        lam, x = res
        if not (_is_tt(x) and tt_consistent(x)[0]):
            return
        A = mat(dense_cores(op.cores))
        B = mat(dense_cores(Bop.cores)) if Bop is not None else None
        xv = vec_of(x)
        den = np.vdot(xv, (B @ xv) if B is not None else xv)
        rq = np.vdot(xv, A @ xv) / den
        cplx = np.iscomplexobj(A) or np.iscomplexobj(xv) or (B is not None and np.iscomplexobj(B))
        tags = (['complex'] if cplx else []) + (['gevp'] if B is not None else [])
        nA = float(np.linalg.norm(A, 2))
        c.check(self.api, 'eigenvalue_is_rayleigh_quotient', abs(lam - rq) <= 1e-8 * max(nA, 1e-300) * (1 if B is None else np.linalg.cond(B)), tags,
                {'reported': lam, 'rayleigh': rq, 'dims': list(op.row_dims)}, prop='C08')
        c.check(self.api, 'unit_norm', abs(float(np.linalg.norm(xv)) - 1.0) <= 1e-8, tags, {'norm': float(np.linalg.norm(xv))}, prop='C08')
        c.sig(self.api, list(op.row_dims), bool(cplx), B is not None, int(v['repeats']))


def install():
    global evp
    evp = importlib.import_module('scikit_tt.solvers.evp')
    if getattr(evp, '__vt_armed__', False):
        return evp
    probe.install(evp, '__construct_micro_matrices', MicroMatrices(), replace_everywhere=True)
    probe.install(evp, 'als', EvpAls(), replace_everywhere=True)
    probe.install(evp, 'power_method', PowerMethod(), replace_everywhere=True)
    evp.__vt_armed__ = True
    return evp
