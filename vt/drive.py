"""Driver helpers: make a public call on the real library, classify what happens."""
import os

import numpy as np

from . import core, probe

# documented refusals of the library's own argument checks
REFUSALS = (ValueError, TypeError, IndexError, NotImplementedError)


def call(api, fn, *args, prop=None, tags=(), detail=None, refusals=(), refusal_pred=None, **kwargs):
    """Run fn(*args, **kwargs) on an admissible input.  Returns (ok, result).  An exception escaping is a
    violation (`exception`) of `prop` unless its type is listed in `refusals` (a documented refusal for this
    input class)."""
    c = core.ctx()
    try:
        r = fn(*args, **kwargs)
    except refusals as e:
        c.events['refused:' + api + ':' + type(e).__name__] += 1
        return False, None
    except Exception as e:  # noqa
        probe.S.busy = 0
        probe.S.depth = 0
        del probe.S.targets[:]
        if refusal_pred is not None and refusal_pred(e):  # a documented give-up of a heuristic, established from hooked state
            c.events['refused:' + api + ':' + type(e).__name__ + ':by_predicate'] += 1
            return False, None
        if os.environ.get('VERIF_DEBUG'):
            import traceback
            traceback.print_exc()
            np.set_printoptions(precision=17, linewidth=200)
            print('VERIF_DEBUG args of', api, ':', args, kwargs)
        c.exception(api, e, tags=tags, detail=detail, prop=prop)
        return False, None
    c.ran(api, prop=prop)
    return True, r


def expect_refusal(api, fn, *args, prop=None, **kwargs):
    """inadmissible input: nothing is asserted about the outcome except that arguments stay intact (M4 in the
    contract); counted for evidence"""
    c = core.ctx()
    try:
        fn(*args, **kwargs)
        c.events['inadmissible_accepted:' + api] += 1
    except Exception as e:  # noqa
        probe.S.busy = 0
        probe.S.depth = 0
        del probe.S.targets[:]
        c.events['inadmissible_refused:' + api + ':' + type(e).__name__] += 1
