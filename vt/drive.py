"""Driver helpers: make a public call on the real library, classify what happens."""
import copy
import json
import os

import numpy as np

from . import core, probe

# documented refusals of the library's own argument checks
REFUSALS = (ValueError, TypeError, IndexError, NotImplementedError)


_SIGS = None


def _signatures():
    global _SIGS
    if _SIGS is None:
        try:
            with open(os.path.join(os.path.dirname(os.path.abspath(__file__)), 'signatures.json')) as f:
                _SIGS = json.load(f)
        except Exception:
            _SIGS = {}
    return _SIGS


def positionalise(api, fn, args, kwargs):
    """the same call with its keyword arguments passed positionally, in the parameter order recorded from the documented signatures
    (vt/signatures.json; gaps filled with the recorded defaults): callers who pass optional arguments by position exist, and a change
    that re-orders parameters only shows for them"""
    sig = _signatures().get(api)
    if not sig or not kwargs or getattr(fn, '__name__', None) != api.split('.')[-1] or api.startswith('models.'):
        return args, kwargs
    names = [n for n, _ in sig]
    if any(k not in names for k in kwargs) or any(names.index(k) < len(args) for k in kwargs):
        return args, kwargs
    last = max(names.index(k) for k in kwargs)
    new = list(args)
    for i in range(len(args), last + 1):
        n, d = sig[i]
        if n in kwargs:
            new.append(kwargs[n])
        elif 'default' in d and 'unrepresentable' not in d:
            new.append(np.inf if d['default'] == 'inf' else copy.copy(d['default']))
        else:
            return args, kwargs
    return tuple(new), {}


NUMPY_SCALARS = not os.environ.get('VERIF_NO_NUMPY_SCALARS')


def numpyise(rng, args, kwargs, single=True):
    """the same call with (some of) its Python int / float arguments as np.int64 / np.float64 - what a caller holds who computed a
    step size, threshold, rank or index with NumPy (top-level arguments only; bools, None, strings and containers stay)"""
    n = [0]

    def conv(v):
        if isinstance(v, bool) or not isinstance(v, (int, float)) or rng.random() < 0.4:
            return v
        if isinstance(v, float) and not np.isfinite(v):
            if v == float('inf'):  # "unbounded" spelled in another way: a new float object, math.inf, a NumPy scalar (equal by value, not identical to np.inf)
                n[0] += 1
                import math
                return [float('inf'), math.inf, np.float64('inf'), -np.log(np.float64(0.0)) if False else np.float64(np.inf)][int(rng.integers(0, 4))]
            return v
        n[0] += 1
        if isinstance(v, int):
            return np.int64(v)
        # (a quarter of the converted floats as single-precision scalars where the value is exactly representable)
        # (value preserving only: other arguments of the same call - precomputed propagators, reference lists - may have been derived from v)
        return np.float32(v) if single and rng.random() < 0.25 and abs(v) < 1e30 and float(np.float32(v)) == v else np.float64(v)
    return tuple(conv(a) for a in args), {k: conv(v) for k, v in kwargs.items()}, n[0]


STRICT_PROBE = os.environ.get('VERIF_STRICT_PROBE') or False  # '1': floating-point errors + warnings, 'warnings': warnings only
# entry points that rely on silent floating-point exceptions (underflow) but never emit a warning on the unchanged tree (probe: 'warnings', seeds 0-3)
STRICT_WARN_OK = {'quantum_computation.sampling'}
# entry points whose unchanged implementation was never seen to raise under np.errstate(all='raise') (probe runs, seeds 0-3)
try:
    import json as _json
    STRICT_FP_OK = set(_json.load(open(os.path.join(os.path.dirname(os.path.abspath(__file__)), 'strict_ok.json'))))
except Exception:
    STRICT_FP_OK = set()
if os.environ.get('VERIF_NO_STRICT_ENV'):
    STRICT_FP_OK = set()


def call(api, fn, *args, prop=None, tags=(), detail=None, refusals=(), refusal_pred=None, **kwargs):
    """Run fn(*args, **kwargs) on an admissible input.  Returns (ok, result).  An exception escaping is a
    violation (`exception`) of `prop` unless its type is listed in `refusals` (a documented refusal for this
    input class)."""
    c = core.ctx()
    if c is not None and c.aux_rng is not None and NUMPY_SCALARS and c.aux_rng.random() < 0.15:
        # (model constructors turn their continuous parameters into tensor entries: a single-precision parameter legitimately yields a
        # single-precision operator, so only double-precision scalars are substituted there)
        args, kwargs, n = numpyise(c.aux_rng, args, kwargs, single=not api.startswith('models.'))
        if n:
            c.events['numpy_scalar_arguments:' + api] += 1
    if kwargs and c is not None and c.aux_rng is not None and c.aux_rng.random() < 0.25:
        a2, k2 = positionalise(api, fn, args, kwargs)
        if not k2 and a2 is not args:
            c.events['called_positionally:' + api] += 1
            args, kwargs = a2, k2
    strict = False
    if c is not None and c.aux_rng is not None:
        if STRICT_PROBE:
            strict = True
        elif api in STRICT_FP_OK and c.aux_rng.random() < 0.12:
            strict = True
        elif api in STRICT_WARN_OK and c.aux_rng.random() < 0.12:
            strict = 'warnings'
    try:
        if strict:
            # the caller's floating-point error state is the caller's business: with np.seterr(all='raise') a silent 0/0 or overflow inside
            # the library becomes a FloatingPointError.  Only for entry points on which the unchanged library never relies on silent
            # floating-point exceptions (STRICT_FP_OK, established with VERIF_STRICT_PROBE=1 over several seeds)
            c.events['called_with_strict_floating_point_error_state:' + api] += 1
            import warnings as _w
            if strict == 'warnings' or STRICT_PROBE == 'warnings':
                with _w.catch_warnings():
                    _w.simplefilter('error')
                    r = fn(*args, **kwargs)
            else:
                with np.errstate(all='raise'), _w.catch_warnings():
                    _w.simplefilter('error')  # (warnings turned into errors: python -W error, pytest filterwarnings = error)
                    r = fn(*args, **kwargs)
        else:
            r = fn(*args, **kwargs)
    except refusals as e:
        c.events['refused:' + api + ':' + type(e).__name__] += 1
        return False, None
    except Exception as e:  # noqa
        if STRICT_PROBE and isinstance(e, (FloatingPointError, Warning)):
            c.events['strict_probe_floating_point_error:' + api] += 1
        probe.S.busy = 0
        probe.S.depth = 0
        del probe.S.targets[:]
        del probe.S.apis[:]
        if refusal_pred is not None and refusal_pred(e):  # a documented give-up of a heuristic, established from hooked state
            c.events['refused:' + api + ':' + type(e).__name__ + ':by_predicate'] += 1
            return False, None
        if os.environ.get('VERIF_DEBUG'):
            import traceback
            traceback.print_exc()
            np.set_printoptions(precision=17, linewidth=200)
            print('VERIF_DEBUG args of', api, ':', args, kwargs)
        c.exception(api, e, tags=tags, detail=detail, prop=prop)
        return False, None
    c.ran(api, prop=prop)
    return True, r


def refused_then_used(api, fn, *args, prop=None, **kwargs):
    """an inadmissible call on a live object (in-place variants included); the monitored wrapper judges what the refusal left behind
    (`operand_unchanged_by_refused_call`, argument / option lists unchanged).  Returns True if the call was refused."""
    c = core.ctx()
    try:
        fn(*args, **kwargs)
        c.events['inadmissible_accepted:' + api] += 1
        return False
    except Exception as e:  # noqa
        probe.S.busy = 0
        probe.S.depth = 0
        del probe.S.targets[:]
        del probe.S.apis[:]
        c.events['refused_in_place_call:' + api + ':' + type(e).__name__] += 1
        return True


def expect_refusal(api, fn, *args, prop=None, **kwargs):
    """inadmissible input: nothing is asserted about the outcome except that arguments stay intact (M4 in the
    contract); counted for evidence"""
    c = core.ctx()
    try:
        fn(*args, **kwargs)
        c.events['inadmissible_accepted:' + api] += 1
    except Exception as e:  # noqa
        probe.S.busy = 0
        probe.S.depth = 0
        del probe.S.targets[:]
        del probe.S.apis[:]
        c.events['inadmissible_refused:' + api + ':' + type(e).__name__] += 1
