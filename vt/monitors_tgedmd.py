"""C19: contracts on tgedmd.generator_on_product(_reversible) and tgedmd.amuset_hosvd.  The reference applies the
Kolmogorov generator to the *product* function with derivatives obtained by complex-step differentiation of the product
(independent of the library's product rule and of the partial/gradient/hessian methods)."""
import importlib
import os
import itertools

import numpy as np

from . import core, probe
from .monitors_transform import parse, pristine
from .monitors_tdmd import match_multiset

P = 'C19'
H = 1e-30


def prod_fn(basis_list, s):
    fs = pristine([basis_list[k][s[k]] for k in range(len(s))])  # (one independent copy per mode position, also when the list holds one object twice)

    def F(x):
        out = 1.0
        for f in fs:
            out = out * f(x)
        return out
    return F


def grad_cs(F, x):
    d = x.shape[0]
    g = np.zeros(d)
    for k in range(d):
        xc = x.astype(complex)
        xc[k] += 1j * H
        g[k] = np.imag(F(xc)) / H
    return g


def hess_fd_of_cs(F, x, h=1e-4):
    d = x.shape[0]
    Hm = np.zeros((d, d))
    for k in range(d):
        xp, xm = x.copy(), x.copy()
        xp[k] += h
        xm[k] -= h
        Hm[:, k] = (grad_cs(F, xp) - grad_cs(F, xm)) / (2 * h)
    return 0.5 * (Hm + Hm.T)


def generator_ref(F, x, b, sigma):
    a = sigma @ sigma.T
    return float(b @ grad_cs(F, x) + 0.5 * np.sum(a * hess_fd_of_cs(F, x)))


class GenOnProduct(probe.Contract):
    freeze = True  # the oracle sees the arguments as they were at call entry; arrays / lists rewritten by the call are reported
    input_prop = P
    api = 'tgedmd.generator_on_product'

    def post(self, st, res, args, kwargs):
        c = core.ctx()
        v = parse(['basis_list', 's', 'x', 'b', 'sigma'], {}, args, kwargs)
        F = prod_fn(v['basis_list'], v['s'])
        x = np.asarray(v['x'], dtype=float)
        want = generator_ref(F, x, np.asarray(v['b'], dtype=float), np.asarray(v['sigma'], dtype=float))
        sg = np.asarray(v['sigma'])
        sc = max(1.0, abs(want), float(np.sum(np.abs(sg @ sg.T))) * 1.0)
        tags = ['modes=%d' % len(v['s']) if len(v['s']) <= 2 else 'modes>2', 'square_sigma' if sg.shape[0] == sg.shape[1] else 'nonsquare_sigma']
        c.check(self.api, 'equals_generator_applied_to_product', abs(res - want) <= 1e-5 * sc, tags, {'got': res, 'want': want, 's': list(v['s']), 'x': x}, prop=P)
        c.sig(self.api, len(v['s']), sg.shape, [type(v['basis_list'][k][v['s'][k]]).__name__ for k in range(len(v['s']))])


class GenOnProductRev(probe.Contract):
    freeze = True  # the oracle sees the arguments as they were at call entry; arrays / lists rewritten by the call are reported
    input_prop = P
    api = 'tgedmd.generator_on_product_reversible'

    def post(self, st, res, args, kwargs):
        c = core.ctx()
        v = parse(['basis_list', 's', 'i', 'x', 'sigma'], {}, args, kwargs)
        F = prod_fn(v['basis_list'], v['s'])
        x = np.asarray(v['x'], dtype=float)
        sg = np.asarray(v['sigma'], dtype=float)
        want = float(grad_cs(F, x) @ sg[:, v['i']])
        tags = ['modes=%d' % len(v['s']) if len(v['s']) <= 2 else 'modes>2', 'square_sigma' if sg.shape[0] == sg.shape[1] else 'nonsquare_sigma']
        c.check(self.api, 'equals_gradient_of_product_dot_sigma_column', abs(res - want) <= 1e-9 * max(1.0, abs(want)), tags, {'got': res, 'want': want, 's': list(v['s']), 'i': v['i']}, prop=P)
        c.sig(self.api, len(v['s']), sg.shape)


COND_MAX = float(os.environ.get('VERIF_C19_CONDMAX', '1e9'))


class Amuset(probe.Contract):
    freeze = True  # the oracle sees the arguments as they were at call entry; arrays / lists rewritten by the call are reported
    input_prop = P
    api = 'tgedmd.amuset_hosvd'

    def post(self, st, res, args, kwargs):
        c = core.ctx()
        v = parse(['data_matrix', 'basis_list', 'sigma', 'b', 'reweight', 'num_eigvals', 'threshold', 'max_rank', 'return_option', 'output_freq', 'rel_threshold'],
                  {'b': None, 'reweight': None, 'num_eigvals': np.inf, 'threshold': 1e-2, 'max_rank': np.inf, 'return_option': 'eigenfunctionevals', 'rel_threshold': False}, args, kwargs)
        X, bl, sigma, b, w = np.asarray(v['data_matrix'], dtype=float), v['basis_list'], np.asarray(v['sigma'], dtype=float), v['b'], v['reweight']
        d, m = X.shape
        n = [len(f) for f in bl]
        N = int(np.prod(n))
        if N * m > 4096 and not (N <= 4 and m <= 10000):
            return
        try:
            lam, second, ranks = res
        except Exception:
            c.check(self.api, 'returns_triple', False, prop=P)
            return
        rev = b is None
        ww = np.ones(m) if w is None else np.asarray(w, dtype=float)
        idxs = list(itertools.product(*[range(k) for k in n]))
        Psi = np.zeros((N, m))
        for a_, s in enumerate(idxs):
            F = prod_fn(bl, s)
            for j in range(m):
                Psi[a_, j] = F(X[:, j])
        # the library's sequential truncated SVD must be exact up to numerically zero directions
        thr, rel = v['threshold'], bool(v['rel_threshold'])
        part = np.ones((1, m))
        for k in range(len(bl)):
            fk = np.array([[float(f(X[:, j])) for j in range(m)] for f in pristine(bl[k])])
            part = np.einsum('aj,bj->abj', part, fk).reshape(-1, m)
            if k == len(bl) - 1:
                part = part * np.sqrt(ww)[None, :]
            s = np.linalg.svd(part, compute_uv=False)
            cut = thr * s[0] if rel else thr
            if np.any((s <= cut * (1 + 1e-6)) & (s > 1e-10 * s[0])):
                c.skip('tgedmd_truncation_effective')
                return
            if np.any((s > cut) & (s <= 1e-10 * s[0])):
                # numerically vanishing directions that the requested cut keeps (threshold 0 on rank-deficient transformed data): their
                # reciprocals are rounding noise - nothing is determined by the data
                c.skip('tgedmd_numerically_zero_directions_not_cut')
                return
        if v['max_rank'] != np.inf and v['max_rank'] < min(N, m):
            c.skip('tgedmd_rank_cap_effective')
            return
        Pw = Psi * np.sqrt(ww)[None, :]
        U, s, Vh = np.linalg.svd(Pw, full_matrices=False)
        cut = (thr * s[0] if rel else thr)
        keep = (s > cut) & (s > 1e-10 * s[0])
        U, s, Vh = U[:, keep], s[keep], Vh[keep]
        if float(s[0] / s[-1]) > COND_MAX:
            c.skip('tgedmd_data_ill_conditioned')
            return
        Sinv = np.diag(1.0 / s)
        if rev:
            M = np.zeros((len(s), len(s)))
            for j in range(m):
                G = np.zeros((N, d))
                for a_, sidx in enumerate(idxs):
                    G[a_] = grad_cs(prod_fn(bl, sidx), X[:, j])
                A = sigma[:, :, j] @ sigma[:, :, j].T
                B = G.T @ U @ Sinv  # d x r
                M += -0.5 * ww[j] * B.T @ A @ B
        else:
            LP = np.zeros((N, m))
            bb = np.asarray(b, dtype=float)
            for a_, sidx in enumerate(idxs):
                F = prod_fn(bl, sidx)
                for j in range(m):
                    LP[a_, j] = generator_ref(F, X[:, j], bb[:, j], sigma[:, :, j])
            M = Vh @ np.diag(np.sqrt(ww)) @ LP.T @ U @ Sinv
        wv, Wm = np.linalg.eig(M)
        condW = float(np.linalg.cond(Wm)) if Wm.size else 1.0
        if condW > 1e5:
            c.skip('tgedmd_eigenproblem_ill_conditioned')
            return
        # rounding noise of the eigenvalues scales with ||M|| (times the conditioning of the eigenvectors), not with the largest |eigenvalue|
        sc = max(float(np.max(np.abs(wv))) if wv.size else 0.0, float(np.linalg.norm(M, 2)) if M.size else 0.0, 1e-12)
        lam = np.asarray(lam).reshape(-1)
        k = len(lam)
        tags = ['reversible' if rev else 'nonreversible', 'reweighted' if w is not None else 'unweighted', 'square_sigma' if sigma.shape[0] == sigma.shape[1] else 'nonsquare_sigma',
                'return=' + str(v['return_option'])]
        srt = wv[np.argsort(-wv)]
        want = srt[:k] if np.isfinite(v['num_eigvals']) else srt
        # measured on the unchanged tree up to condition numbers of 1e9 (workload poorly_conditioned): the eigenvalues agree to ~1e-9 sc
        # (reversible form, exact complex-step gradients in the oracle) resp. ~2e-8 sc (finite-difference Hessian in the oracle),
        # independent of the condition number of the data; the conditioning of the eigenvectors enters linearly
        cond = float(s[0] / s[-1])
        tol = sc * max(1.0, condW) * (max(1e-8, 1e-14 * cond) if rev else 1e-6)
        if not rev:
            # accuracy of the oracle itself: the Hessian of the product is a central difference (h = 1e-4) of complex-step gradients,
            # good to ~1e-8 in absolute terms; generator values that are small only through cancellation inherit that absolute error
            tol += 1e-6 * float(np.max(np.abs(np.einsum('ikl,jkl->ijl', sigma, sigma)))) * max(1.0, condW) * float(s[0] / s[-1])
        if np.isfinite(v['num_eigvals']) and k < len(srt):
            # the returned ones must be the k largest: compare as a multiset with the k leading reference values
            ok, worst = match_multiset(lam, want, tol)
        else:
            ok, worst = match_multiset(lam, srt, tol)
        if os.environ.get('VERIF_C19_DEBUG'):
            import sys as _sys
            print('C19DBG rev=%s cond=%.2e condW=%.2e worst/sc=%.2e tol/sc=%.2e' % (rev, float(s[0] / s[-1]), condW, (worst if worst is not None else np.nan) / sc, tol / sc), file=_sys.stderr)
        c.check(self.api, 'eigenvalues_equal_dense_projected_generator', ok, tags, {'got': lam, 'want': want, 'worst': worst, 'modes': n, 'm': m, 'd': d, 'sigma_shape': list(sigma.shape)}, prop=P)
        c.check(self.api, 'ranks_reported', list(ranks) == [1] + [None] * 0 + list(ranks)[1:] and ranks[0] == 1 and ranks[-1] == 1 and ranks[-2] == len(s), tags, {'ranks': list(ranks), 'kept': len(s)}, prop=P)
        if v['return_option'] == 'eigenfunctionevals' and ok:
            E = np.asarray(second)
            good = E.shape == (k, m)
            if good:
                Wrec = E @ Vh.conj().T  # rows: eigenvectors in the V basis (up to the sign/rotation ambiguity of the SVD this is basis dependent)
                # basis independent statement: each row lies in the row space of V
                resid = float(np.max(np.abs(Wrec @ Vh - E))) / max(float(np.max(np.abs(E))), 1e-300)
                good = resid <= 1e-6
            c.check(self.api, 'eigenfunction_evaluations_in_span_of_right_singular_vectors', good, tags, {'shape': list(E.shape)}, prop=P)
        c.sig(self.api, n, m, d, sigma.shape[1], tags)


def install():
    tg = importlib.import_module('scikit_tt.data_driven.tgedmd')
    if getattr(tg, '__vt_c19__', False):
        return tg
    probe.install(tg, 'generator_on_product', GenOnProduct())
    probe.install(tg, 'generator_on_product_reversible', GenOnProductRev())
    probe.install(tg, 'amuset_hosvd', Amuset())
    tg.__vt_c19__ = True
    return tg
