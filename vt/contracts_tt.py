"""M2/M3/M4 contracts on the real TT class and tensor_train module functions.

Every contract compares the library's result with the same operation done in NumPy on the dense
value of the *pre-call snapshot* of the operands (vt.dense), records the outcome in the context
under the property the clause belongs to (C01..C06) and never raises.  The contracts decide their own
applicability from the observed state (e.g. 1-norm only on non-negative data), so they are equally
valid when the library calls these operations internally from solvers and integrators."""
import string

import numpy as np

from . import core, probe
from .dense import (core_scale, Snap, close, relerr, tt_consistent, shape_sig_cores, shape_tags, dense_b_cores, dense_cores,
                    dense_size, MAX_DENSE, mat)

TOL = 1e-9
TT = None  # set by install()
ttmod = None


def _is_tt(x):
    return TT is not None and isinstance(x, TT)


def _find_tts(x, out, depth=0):
    if _is_tt(x):
        out.append(x)
    elif isinstance(x, (list, tuple)) and depth < 3:
        for y in x:
            _find_tts(y, out, depth + 1)
    elif isinstance(x, dict) and depth < 3:
        for y in x.values():
            _find_tts(y, out, depth + 1)
    return out


def check_returned(api, res):
    """M3 on every TT found in a return value"""
    c = core.ctx()
    for t in _find_tts(res, []):
        ok, why = tt_consistent(t)
        c.check(api, 'returned_tt_consistent', ok, ['why=' + why.split(' (')[0][:40]] if not ok else (), {'why': why}, prop='C06')
        if probe.S.depth == 0:
            probe.register_live(t, api + ':result')


class Base(probe.Contract):
    freeze = True  # non-TT arguments (matrices, index / factor / core-number lists) are judged as they were at call entry
    """common part: snapshot TT arguments (M4), M3 on results, live registration at depth 0"""
    api = '?'
    prop = 'C01'
    inplace_kw = None  # name of the overwrite flag, or True if always in place
    self_pos = 0

    def is_inplace(self, args, kwargs):
        if self.inplace_kw is True:
            return True
        if self.inplace_kw is None:
            return False
        return kwargs.get(self.inplace_kw, False) is not False and self._kwflag(args, kwargs)

    def _kwflag(self, args, kwargs):
        return bool(kwargs.get(self.inplace_kw, False))

    def inplace(self, args, kwargs):
        return args[self.self_pos] if self.is_inplace(args, kwargs) else None

    def pre(self, args, kwargs):
        tts = _find_tts(list(args) + list(kwargs.values()), [])
        snaps = []
        seen = set()
        for t in tts:
            if id(t) in seen:
                continue
            seen.add(id(t))
            ok, _ = tt_consistent(t)
            if not ok:
                snaps.append(None)
                continue
            if dense_size(t.cores) > MAX_DENSE:
                core.ctx().skip('skipped_large')
                snaps.append(None)
                continue
            snaps.append(Snap(t))
            if probe.S.depth == 0:
                probe.register_live(t, self.api + ':arg')
        from .contracts_api import snapshot_plain
        return {'snaps': snaps, 'tts': tts, 'target': self.inplace(args, kwargs), 'plain': snapshot_plain(args, kwargs)}

    def plain_unchanged(self, st, raised=False):
        """list-valued options (per-bond max_rank, index lists, factor lists) are the caller's: a call must not rewrite them.
        Reported under the property whose statement quantifies over that option (requested maximum ranks: C04), otherwise under
        the contract's own property."""
        from .contracts_api import check_plain
        for item in st.get('plain') or []:
            prop = 'C04' if item[0] == 'max_rank' or (self.api.startswith('TT.ortho') and not isinstance(item[0], str)) else self.prop
            check_plain(self.api, [item], raised, prop=prop)

    def immut(self, st):
        c = core.ctx()
        for s in st['snaps']:
            if s is None or s.obj is st['target']:
                continue
            bit, d = s.semantic_diff()
            if bit is not None and d is None:
                c.events['argument_gauge_changed_only:' + self.api] += 1
            c.check(self.api, 'argument_unchanged', d is None, shape_tags_snap(s) if d is not None else (), {'diff': d, 'shape': s.shape_sig()} if d else None,
                    prop='C06')
            if self.api in ('TT.svd', 'TT.pinv'):  # "neither call changes the input unless overwriting was requested" is a clause of C05 itself
                c.check(self.api, 'input_unchanged_without_overwrite', d is None, shape_tags_snap(s) if d is not None else (), {'diff': d, 'shape': s.shape_sig()} if d else None,
                        prop='C05')

    def exc(self, st, e, args, kwargs):
        if st is not None:
            self.immut(st)
            self.plain_unchanged(st, raised=True)
            self.refused(st, e, args, kwargs)

    def refused(self, st, e, args, kwargs):
        """an in-place call that RAISES (a refusal of an inadmissible option value, a dimension mismatch) has not performed the
        documented operation: the object it was to work on must still be the tensor train it was (value, metadata, core list) -
        a caller who catches the refusal and goes on (repeats the call with a corrected argument) works with that object"""
        tgt = st.get('target')
        if tgt is None:
            return
        for s in st['snaps']:
            if s is None or s.obj is not tgt:
                continue
            # (the REPRESENTED tensor and its dimensions: a refused two-sided sweep may legitimately have completed its value-preserving
            # left half - other ranks, another gauge - before the right half refused the option)
            d = None
            ok_, why_ = tt_consistent(tgt)
            if not ok_ or len(tgt.cores) != tgt.order:
                d = 'object inconsistent after the refusal: %s (cores: %d, order: %d)' % (why_, len(tgt.cores), tgt.order)
            elif tgt.order != s.order or list(tgt.row_dims) != s.row_dims or list(tgt.col_dims) != s.col_dims or tgt.ranks[0] != s.ranks[0] or tgt.ranks[-1] != s.ranks[-1]:
                d = 'dimensions %s x %s -> %s x %s' % (s.row_dims, s.col_dims, list(tgt.row_dims), list(tgt.col_dims))
            elif all(np.all(np.isfinite(c_)) for c_ in s.cores):
                a_, b_ = dense_b_cores(s.cores), dense_b_cores(tgt.cores)
                if a_.shape != b_.shape or not close(a_, b_, 1e-9, scale=s.floor()):
                    d = 'dense value changed (rel. %.3g), ranks %s -> %s' % (relerr(a_, b_, s.floor()) if a_.shape == b_.shape else np.inf, s.ranks, list(tgt.ranks))
            props = [self.prop]
            if self.api.startswith('TT.ortho') and (kwargs.get('max_rank', np.inf) is not np.inf or len(args) > 4):
                props.append('C04')  # (a truncating sweep that was refused half way has truncated)
            for p_ in props:
                core.ctx().check(self.api, 'operand_unchanged_by_refused_call', d is None, shape_tags_snap(s) if d is not None else (),
                                 {'diff': d, 'exception': repr(e)[:200], 'shape': s.shape_sig()} if d else None, prop=p_)

    def post(self, st, res, args, kwargs):
        if st is None:
            return
        self.immut(st)
        self.plain_unchanged(st)
        check_returned(self.api, res)
        if not self.is_inplace(args, kwargs):
            # "documented to return a new object": the result must not BE one of the operands (a later in-place call on the
            # "result" would otherwise be a call on the operand; seen with a shortcut returning self for real trains in conj)
            for t in _find_tts([res], []):
                same = any(t is a for a in st['tts'])
                core.ctx().check(self.api, 'result_is_a_new_object', not same, shape_tags(t) if same else (), None, prop='C06')
        if any(s is None for s in st['snaps']):
            return
        if any(not all(np.all(np.isfinite(c)) for c in s.cores) for s in st['snaps']):
            # operands containing inf / nan (what a solver that normalises by the norm of a zero state hands to the TT algebra): no value
            # of a "dense tensor" is defined for them, the value clauses do not apply
            core.ctx().skip('operand_with_non_finite_entries')
            return
        try:
            big = any(tt_consistent(t)[0] and dense_size(t.cores) > MAX_DENSE for t in _find_tts([res], []))
        except Exception:
            big = False
        if big:  # operands small, result (tensordot / concatenate / products of a long history) not densifiable
            core.ctx().skip('skipped_large_result')
            return
        self.value(st, res, args, kwargs)

    def value(self, st, res, args, kwargs):
        pass

    # helpers
    def ck(self, check, ok, snaps=(), detail=None, extra_tags=(), prop=None):
        tags = list(extra_tags)
        if not ok:
            for s in snaps:
                tags += shape_tags_snap(s)
        return core.ctx().check(self.api, check, ok, tags, detail, prop=prop or self.prop)


def shape_tags_snap(s):
    sg = shape_sig_cores(s.cores)
    tags = ['order=%d' % sg['d'] if sg['d'] <= 2 else 'order>=3']
    if sg['complex']:
        tags.append('complex')
    if sg['rank1bond']:
        tags.append('rank1bond')
    if sg['size1mode']:
        tags.append('size1mode')
    return tags


def _std(s):
    """snapshot has boundary ranks 1"""
    return s.ranks[0] == 1 and s.ranks[-1] == 1


def _res_dense(res):
    return dense_cores(res.cores)


def _scale(*xs):
    return sum(float(np.max(np.abs(x))) if np.size(x) else 0.0 for x in xs)


# ======================================================================================= C01 ====

class Full(Base):
    api = 'TT.full'

    def value(self, st, res, args, kwargs):
        s = st['snaps'][0]
        if not _std(s):
            return
        D = s.dense()
        self.ck('value', isinstance(res, np.ndarray) and res.shape == D.shape and close(res, D, TOL, scale=s.floor()), [s],
                {'relerr': relerr(res, D) if isinstance(res, np.ndarray) else None, 'shape': s.shape_sig()})


class Matricize(Base):
    api = 'TT.matricize'

    def value(self, st, res, args, kwargs):
        s = st['snaps'][0]
        if not _std(s):
            return
        M = mat(s.dense())
        if M.shape[1] == 1:
            M = M.reshape(-1)
        self.ck('value', isinstance(res, np.ndarray) and res.shape == M.shape and close(res, M, TOL, scale=s.floor()), [s],
                {'got_shape': getattr(res, 'shape', None), 'want_shape': M.shape, 'shape': s.shape_sig()})


class Element(Base):
    api = 'TT.element'

    def value(self, st, res, args, kwargs):
        s = st['snaps'][0]
        if not _std(s):
            return
        idx = args[1] if len(args) > 1 else kwargs.get('indices')
        D = s.dense()
        want = D[tuple(int(i) for i in idx)]
        self.ck('value', abs(res - want) <= TOL * max(float(np.max(np.abs(D))), s.floor(), 1e-300), [s],
                {'indices': list(idx), 'got': res, 'want': want, 'shape': s.shape_sig()})


class Add(Base):
    api = 'TT.__add__'
    sign = 1.0

    def value(self, st, res, args, kwargs):
        if len(st['snaps']) == 1:  # t + t
            a = b = st['snaps'][0]
        else:
            a, b = st['snaps'][0], st['snaps'][1]
        if not (_std(a) and _std(b)) or not _is_tt(res):
            return
        Da, Db = a.dense(), b.dense()
        want = Da + self.sign * Db
        ok, _ = tt_consistent(res)
        if not ok:
            return
        got = _res_dense(res) if res.ranks[0] == 1 and res.ranks[-1] == 1 else None
        good = got is not None and got.shape == want.shape and close(got, want, TOL, scale=_scale(Da, Db) + a.floor() + b.floor())
        self.ck('value', good, [a, b], {'relerr': relerr(got, want, _scale(Da, Db)) if got is not None else None,
                                        'a': a.shape_sig(), 'b': b.shape_sig()})
        self.ck('dims', list(res.row_dims) == a.row_dims and list(res.col_dims) == a.col_dims, [a, b])
        core.ctx().sig(self.api, a.shape_sig(), b.shape_sig())


class Sub(Add):
    api = 'TT.__sub__'
    sign = -1.0


class Mul(Base):
    api = 'TT.__mul__'

    def value(self, st, res, args, kwargs):
        s = st['snaps'][0]
        scalar = args[1]
        if not _std(s) or not _is_tt(res):
            return
        D = s.dense()
        if not np.isfinite(scalar):  # (1 / norm of a zero tensor inside a solver that normalises: nothing is stated about inf * x)
            core.ctx().skip('scalar_multiple_by_non_finite_scalar')
            return
        want = scalar * D
        got = _res_dense(res)
        self.ck('value', got.shape == want.shape and close(got, want, TOL, scale=abs(scalar) * s.floor()), [s],
                {'scalar': scalar, 'relerr': relerr(got, want), 'shape': s.shape_sig()})
        core.ctx().sig(self.api, s.shape_sig(), type(scalar).__name__)


class RMul(Mul):
    api = 'TT.__rmul__'


class MatMul(Base):
    api = 'TT.__matmul__'

    def value(self, st, res, args, kwargs):
        if len(st['snaps']) == 1:
            a = b = st['snaps'][0]
        else:
            a, b = st['snaps'][0], st['snaps'][1]
        if not (_std(a) and _std(b)):
            return
        Da, Db = a.dense(), b.dense()
        d = a.order
        want = (mat(Da) @ mat(Db)).reshape(list(a.row_dims) + list(b.col_dims))
        sc = float(np.linalg.norm(Da)) * float(np.linalg.norm(Db)) + 1e4 * a.floor() * b.floor()
        if all(x == 1 for x in a.row_dims) and all(x == 1 for x in b.col_dims):
            ok = np.ndim(res) == 0 and abs(res - want.reshape(-1)[0]) <= TOL * max(sc, 1e-300)
            self.ck('scalar_value', ok, [a, b], {'got': res if np.ndim(res) == 0 else repr(type(res)), 'want': want.reshape(-1)[0]})
        else:
            if not _is_tt(res):
                self.ck('value', False, [a, b], {'got_type': repr(type(res))})
                return
            got = _res_dense(res)
            self.ck('value', got.shape == want.shape and close(got, want, TOL, scale=sc), [a, b],
                    {'relerr': relerr(got, want, sc), 'a': a.shape_sig(), 'b': b.shape_sig()})
            self.ck('dims', list(res.row_dims) == a.row_dims and list(res.col_dims) == b.col_dims, [a, b])
        core.ctx().sig(self.api, a.shape_sig(), b.shape_sig())


class Transpose(Base):
    api = 'TT.transpose'
    inplace_kw = 'overwrite'

    def _args(self, args, kwargs):
        names = ['cores', 'conjugate', 'overwrite']
        vals = {'cores': None, 'conjugate': False, 'overwrite': False}
        for i, a in enumerate(args[1:]):
            vals[names[i]] = a
        vals.update(kwargs)
        return vals

    def is_inplace(self, args, kwargs):
        return self._args(args, kwargs)['overwrite'] is not False

    def value(self, st, res, args, kwargs):
        s = st['snaps'][0]
        v = self._args(args, kwargs)
        if not _std(s) or not _is_tt(res):
            return
        d = s.order
        cores = list(range(d)) if v['cores'] is None else [int(i) for i in np.atleast_1d(v['cores'])]
        if v['conjugate'] and sorted(set(cores)) != list(range(d)):
            return  # conjugating a subset of cores is not an operation on the dense tensor
        D = s.dense()
        perm = list(range(2 * d))
        for i in set(cores):
            perm[i], perm[d + i] = d + i, i
        want = np.transpose(D, perm)
        if v['conjugate']:
            want = np.conj(want)
        got = _res_dense(res)
        self.ck('value', got.shape == want.shape and close(got, want, TOL, scale=s.floor()), [s],
                {'cores': cores, 'conjugate': bool(v['conjugate']), 'shape': s.shape_sig()})
        core.ctx().sig(self.api, s.shape_sig(), len(set(cores)) == d, bool(v['conjugate']), bool(v['overwrite']))


class Conj(Base):
    api = 'TT.conj'
    inplace_kw = 'overwrite'

    def is_inplace(self, args, kwargs):
        ow = args[1] if len(args) > 1 else kwargs.get('overwrite', False)
        return ow is not False

    def value(self, st, res, args, kwargs):
        s = st['snaps'][0]
        if not _is_tt(res):
            return
        want = np.conj(s.dense_b())
        got = dense_b_cores(res.cores)
        self.ck('value', got.shape == want.shape and close(got, want, TOL, scale=s.floor()), [s], {'shape': s.shape_sig()})
        core.ctx().sig(self.api, s.shape_sig())


class Copy(Base):
    api = 'TT.copy'

    def value(self, st, res, args, kwargs):
        s = st['snaps'][0]
        if not _is_tt(res):
            return
        d = s.diff(res)
        self.ck('value', d is None, [s], {'diff': d})
        shares = any(np.shares_memory(a, b) for a, b in zip(args[0].cores, res.cores))
        self.ck('deep', (res is not args[0]) and not shares and res.cores is not args[0].cores, [s], prop='C06')


class Norm(Base):
    api = 'TT.norm'

    def value(self, st, res, args, kwargs):
        s = st['snaps'][0]
        p = args[1] if len(args) > 1 else kwargs.get('p', 2)
        if not _std(s):
            return
        D = s.dense()
        if p == 2:
            want = float(np.linalg.norm(D.reshape(-1)))
            self.ck('norm2', abs(res - want) <= 1e-8 * max(want, s.floor(), 1e-300), [s], {'got': res, 'want': want, 'shape': s.shape_sig()})
            core.ctx().sig(self.api, 2, s.shape_sig())
        elif p == 1:
            if np.iscomplexobj(D) or np.any(D < 0):
                core.ctx().skip('norm1_negative_entries')  # documented assumption of norm(p=1)
                return
            M = mat(D)
            if M.shape[0] == 1 or M.shape[1] == 1:
                want = float(np.sum(M))
            else:
                want = float(np.max(np.sum(M, axis=0)))
            self.ck('norm1', abs(res - want) <= 1e-9 * max(want, s.floor(), 1e-300), [s], {'got': res, 'want': want, 'shape': s.shape_sig()})
            core.ctx().sig(self.api, 1, s.shape_sig())


class ResidualError(Base):
    api = 'tt.residual_error'

    def value(self, st, res, args, kwargs):
        names = ['operator', 'lhs', 'rhs']
        vals = dict(zip(names, args))
        vals.update(kwargs)
        snaps = {id(s.obj): s for s in st['snaps']}
        A, x, b = (snaps[id(vals[n])] for n in names)
        if not (_std(A) and _std(x) and _std(b)):
            return
        MA, vx, vb = mat(A.dense()), mat(x.dense()).reshape(-1), mat(b.dense()).reshape(-1)
        want = float(np.linalg.norm(MA @ vx - vb))
        sc = float(np.linalg.norm(MA)) * float(np.linalg.norm(vx)) + float(np.linalg.norm(vb)) + 1e4 * A.floor() * x.floor() + b.floor()
        # the residual train [Ax | -b] is orthonormalised core by core: its rounding noise is proportional to the product over the
        # cores of (||A_i|| ||x_i|| + ||b_i||), which stays O(1) when Ax and b vanish through *different* cores (exactly-zero tensors)
        if A.order == x.order == b.order:
            cross = 1.0
            for i in range(A.order):
                cross *= float(np.linalg.norm(A.cores[i])) * float(np.linalg.norm(x.cores[i])) + float(np.linalg.norm(b.cores[i]))
            sc += 1e-4 * cross
        self.ck('value', abs(res - want) <= 1e-8 * max(sc, 1e-300), [A, x, b], {'got': res, 'want': want})
        core.ctx().sig(self.api, A.shape_sig(), x.shape_sig(), b.shape_sig())


class Constructor(probe.Contract):
    """zeros / ones / eye / unit / uniform / rand / canonical: results have no TT arguments"""
    prop = 'C01'

    def __init__(self, name):
        self.api = 'tt.' + name
        self.name = name

    def post(self, st, res, args, kwargs):
        c = core.ctx()
        if _is_tt(res):
            # a constructor has no tensor-train argument it could hand back: its result must be an object (and a core list, and core
            # buffers) of its own, distinct from every tensor train that is alive (memoised results would be shared by their holders)
            same = any(ref() is res for (ref, _n) in list(probe.S.live.values()))
            c.check(self.api, 'result_is_a_new_object', not same, (), None, prop='C06')
            if not same:
                mine = set(id(x) for x in res.cores)
                shared = False
                for (ref, _n) in list(probe.S.live.values()):
                    o = ref()
                    if o is not None and _is_tt(o):
                        shared = shared or o.cores is res.cores or any(id(x) in mine for x in o.cores)
                c.check(self.api, 'result_shares_no_core_with_live_objects', not shared, (), None, prop='C06')
        check_returned(self.api, res)
        if not _is_tt(res) or not tt_consistent(res)[0] or dense_size(res.cores) > MAX_DENSE:
            return
        D = dense_cores(res.cores)
        d = res.order
        name = self.name
        tags = shape_tags(res)

        def ck(check, ok, detail=None):
            c.check(self.api, check, ok, tags if not ok else (), detail, prop='C01')

        def ranks_arg(r, n):
            return list(r) if isinstance(r, list) else [1] + [r] * (n - 1) + [1]

        if name in ('zeros', 'ones', 'rand'):
            row = list(args[0]) if len(args) > 0 else list(kwargs['row_dims'])
            col = list(args[1]) if len(args) > 1 else list(kwargs['col_dims'])
            r = args[2] if len(args) > 2 else kwargs.get('ranks', 1)
            rk = ranks_arg(r, len(row))
            ck('dims', list(res.row_dims) == row and list(res.col_dims) == col and list(res.ranks) == rk,
               {'row': row, 'col': col, 'ranks': rk, 'got': [res.row_dims, res.col_dims, res.ranks]})
            if name == 'zeros':
                ck('value', not np.any(D))
            elif name == 'ones':
                ck('value', close(D, np.full(D.shape, float(np.prod(rk))), TOL), {'ranks': rk})
            else:
                ck('value_range', bool(np.all(np.isfinite(D))))
            c.sig(self.api, shape_sig_cores(res.cores))
        elif name == 'eye':
            dims = list(args[0]) if args else list(kwargs['dims'])
            ck('dims', list(res.row_dims) == dims and list(res.col_dims) == dims)
            ck('value', np.array_equal(mat(D), np.eye(int(np.prod(dims)))))
            c.sig(self.api, dims)
        elif name == 'unit':
            dims = list(args[0]) if args else list(kwargs['dims'])
            inds = list(args[1]) if len(args) > 1 else list(kwargs['inds'])
            want = np.zeros(dims + [1] * len(dims))
            want[tuple(inds) + (0,) * len(dims)] = 1
            ck('dims', list(res.row_dims) == dims and list(res.col_dims) == [1] * len(dims))
            ck('value', D.shape == want.shape and np.array_equal(D, want), {'dims': dims, 'inds': inds})
            c.sig(self.api, dims, inds)
        elif name == 'uniform':
            row = list(args[0]) if args else list(kwargs['row_dims'])
            r = args[1] if len(args) > 1 else kwargs.get('ranks', 1)
            nrm = args[2] if len(args) > 2 else kwargs.get('norm', 1)
            rk = ranks_arg(r, len(row))
            ck('dims', list(res.row_dims) == row and list(res.col_dims) == [1] * len(row) and list(res.ranks) == rk)
            flat = D.reshape(-1)
            ck('constant', close(flat, np.full(flat.shape, flat[0]), TOL))
            ck('norm', abs(np.linalg.norm(flat) - nrm) <= 1e-9 * max(abs(nrm), 1e-300), {'got': float(np.linalg.norm(flat)), 'want': nrm, 'ranks': rk, 'row': row})
            c.sig(self.api, row, rk)


# ======================================================================================= C02 ====

def tensordot_oracle(Da, da, Db, db, k, mode):
    """numpy evaluation of the documented contraction on dense (m.., n..) arrays of orders da, db"""
    letters = iter(string.ascii_letters)
    ra = [next(letters) for _ in range(da)]
    ca = [next(letters) for _ in range(da)]
    rb = [next(letters) for _ in range(db)]
    cb = [next(letters) for _ in range(db)]
    if mode == 'last-first':
        pairs = [(da - k + i, i) for i in range(k)]
    elif mode == 'last-last':
        pairs = [(da - k + i, db - k + i) for i in range(k)]
    elif mode == 'first-last':
        pairs = [(i, db - k + i) for i in range(k)]
    else:
        pairs = [(i, i) for i in range(k)]
    for (i, j) in pairs:
        rb[j] = ra[i]
        cb[j] = ca[i]
    ia = [i for i in range(da) if i not in [p[0] for p in pairs]]
    ib = [j for j in range(db) if j not in [p[1] for p in pairs]]
    if mode == 'last-first':
        order = [('a', i) for i in ia] + [('b', j) for j in ib]
    elif mode == 'last-last':
        order = [('a', i) for i in ia] + [('b', j) for j in reversed(ib)]
    elif mode == 'first-last':
        order = [('b', j) for j in ib] + [('a', i) for i in ia]
    else:
        order = [('b', j) for j in reversed(ib)] + [('a', i) for i in ia]
    out_r = [ra[i] if w == 'a' else rb[i] for (w, i) in order]
    out_c = [ca[i] if w == 'a' else cb[i] for (w, i) in order]
    expr = ''.join(ra + ca) + ',' + ''.join(rb + cb) + '->' + ''.join(out_r + out_c)
    return np.einsum(expr, Da, Db)


class Tensordot(Base):
    api = 'TT.tensordot'
    prop = 'C02'

    def _args(self, args, kwargs):
        names = ['other', 'num_axes', 'mode', 'overwrite']
        vals = {'mode': 'last-first', 'overwrite': False}
        for i, a in enumerate(args[1:]):
            vals[names[i]] = a
        vals.update(kwargs)
        return vals

    def is_inplace(self, args, kwargs):
        return self._args(args, kwargs)['overwrite'] is not False

    def value(self, st, res, args, kwargs):
        v = self._args(args, kwargs)
        if len(st['snaps']) == 1:
            a = b = st['snaps'][0]
        else:
            a, b = st['snaps'][0], st['snaps'][1]
        if not _is_tt(res) or not tt_consistent(res)[0]:
            return
        if not (_std(a) and _std(b)):
            self.value_open_boundary(a, b, res, v)
            return
        k = int(v['num_axes'])
        if 2 * (a.order + b.order) > 52:  # (the einsum reference has 52 index letters: trains of a long concatenation history)
            core.ctx().skip('tensordot_order_beyond_reference')
            return
        want = tensordot_oracle(a.dense(), a.order, b.dense(), b.order, k, v['mode'])
        sc = float(np.linalg.norm(a.dense())) * float(np.linalg.norm(b.dense())) + 1e4 * a.floor() * b.floor()
        tags = ['mode=' + v['mode']]
        if res.ranks[0] != 1 or res.ranks[-1] != 1:  # operands with boundary ranks 1 must give a result with boundary ranks 1
            self.ck('value', False, [a, b], {'mode': v['mode'], 'k': k, 'result_ranks': list(res.ranks), 'why': 'boundary ranks of the result are not 1'}, tags)
            return
        got = _res_dense(res)
        if k == a.order and k == b.order:
            ok = got.size == 1 and abs(got.reshape(-1)[0] - want.reshape(-1)[0]) <= TOL * max(sc, 1e-300)
            self.ck('value_complete', ok, [a, b], {'mode': v['mode'], 'k': k}, tags)
        else:
            self.ck('value', got.shape == want.shape and close(got, want, TOL, scale=sc), [a, b],
                    {'mode': v['mode'], 'k': k, 'got_shape': got.shape, 'want_shape': want.shape, 'relerr': relerr(got, want, sc),
                     'a': a.shape_sig(), 'b': b.shape_sig()}, tags)
        if self.is_inplace(args, kwargs):
            self.ck('overwrite_returns_self', res is args[0], [a, b])
        core.ctx().sig(self.api, v['mode'], k, k == a.order, k == b.order, a.shape_sig(), b.shape_sig(), bool(v['overwrite']))


def _tensordot_open_boundary(self, a, b, res, v):
    """operands whose boundary rank on the NON-contracted side is larger than 1 (e.g. the factors returned by svd): the free
    boundary indices stay free, the result is the documented contraction slice by slice"""
    mode, k = v['mode'], int(v['num_axes'])
    sa, sb = mode.split('-')
    need_a = a.ranks[-1] if sa == 'last' else a.ranks[0]
    need_b = b.ranks[0] if sb == 'first' else b.ranks[-1]
    if need_a != 1 or need_b != 1 or k > a.order or k > b.order or (k == a.order and k == b.order):
        return
    fa = a.ranks[0] if sa == 'last' else a.ranks[-1]
    fb = b.ranks[-1] if sb == 'first' else b.ranks[0]
    Da, Db = a.dense_b(), b.dense_b()
    Da = Da[..., 0] if sa == 'last' else Da[0]        # free boundary axis of a: first (last-*) or last (first-*)
    Db = Db[0] if sb == 'first' else Db[..., 0]       # free boundary axis of b: last (*-first) or first (*-last)
    got = dense_b_cores(res.cores)
    a_first = sa == 'last'  # result = a's remaining cores followed by b's (last-*), or b's followed by a's (first-*)
    want_b = (fa, fb) if a_first else (fb, fa)
    tags = ['mode=' + mode, 'open_boundary']
    if (got.shape[0], got.shape[-1]) != want_b:
        self.ck('value', False, [a, b], {'mode': mode, 'k': k, 'result_boundary': [got.shape[0], got.shape[-1]], 'want_boundary': list(want_b)}, tags)
        return
    sc = float(np.linalg.norm(Da)) * float(np.linalg.norm(Db)) + 1e4 * a.floor() * b.floor()
    ok, worst = True, 0.0
    for i in range(fa):
        for j in range(fb):
            A = Da[i] if sa == 'last' else Da[..., i]
            B = Db[..., j] if sb == 'first' else Db[j]
            want = tensordot_oracle(A, a.order, B, b.order, k, mode)
            g = got[i, ..., j] if a_first else got[j, ..., i]
            if g.shape != want.shape:
                ok = False
                break
            worst = max(worst, relerr(g, want, sc))
    self.ck('value', ok and worst <= TOL, [a, b], {'mode': mode, 'k': k, 'relerr': worst, 'a_ranks': a.ranks, 'b_ranks': b.ranks}, tags)
    core.ctx().sig(self.api, mode, k, 'open_boundary', fa, fb)


Tensordot.value_open_boundary = _tensordot_open_boundary


class RankTensordot(Base):
    api = 'TT.rank_tensordot'
    prop = 'C02'

    def _args(self, args, kwargs):
        names = ['matrix', 'mode', 'overwrite']
        vals = {'mode': 'last', 'overwrite': False}
        for i, a in enumerate(args[1:]):
            vals[names[i]] = a
        vals.update(kwargs)
        return vals

    def is_inplace(self, args, kwargs):
        return self._args(args, kwargs)['overwrite'] is not False

    def value(self, st, res, args, kwargs):
        v = self._args(args, kwargs)
        s = st['snaps'][0]
        if not _is_tt(res) or not tt_consistent(res)[0]:
            return
        Db = s.dense_b()
        M = np.asarray(v['matrix'])
        if v['mode'] == 'last':
            want = np.tensordot(Db, M, axes=([Db.ndim - 1], [0]))
        else:
            want = np.tensordot(M, Db, axes=([1], [0]))
        got = dense_b_cores(res.cores)
        sc = (float(np.linalg.norm(Db)) + s.floor()) * float(np.linalg.norm(M))
        self.ck('value', got.shape == want.shape and close(got, want, TOL, scale=sc), [s], {'mode': v['mode'], 'matrix_shape': M.shape}, ['mode=' + str(v['mode'])])
        core.ctx().sig(self.api, v['mode'], s.shape_sig(), M.shape, bool(v['overwrite']))


class Concatenate(Base):
    api = 'TT.concatenate'
    prop = 'C02'

    def is_inplace(self, args, kwargs):
        ow = args[2] if len(args) > 2 else kwargs.get('overwrite', False)
        return ow is not False

    def pre(self, args, kwargs):
        st = Base.pre(self, args, kwargs)
        other = args[1] if len(args) > 1 else kwargs.get('other')
        if isinstance(other, list):
            st['other_cores'] = [np.array(x, copy=True) for x in other]
        return st

    def value(self, st, res, args, kwargs):
        s = st['snaps'][0]
        if not _is_tt(res) or not tt_consistent(res)[0]:
            return
        if 'other_cores' in st:
            oc = st['other_cores']
        else:
            o = st['snaps'][1] if len(st['snaps']) > 1 else s
            oc = o.cores
        if dense_size(s.cores) * dense_size(oc) > MAX_DENSE:
            return
        want = dense_b_cores(list(s.cores) + list(oc))
        got = dense_b_cores(res.cores)
        self.ck('value', got.shape == want.shape and close(got, want, TOL, scale=1e-4 * core_scale(list(s.cores) + list(oc))), [s], {'shape': s.shape_sig(), 'list': 'other_cores' in st})
        self.ck('dims', list(res.row_dims) == s.row_dims + [x.shape[1] for x in oc] and list(res.col_dims) == s.col_dims + [x.shape[2] for x in oc], [s])
        core.ctx().sig(self.api, s.shape_sig(), shape_sig_cores(oc), 'other_cores' in st, self.is_inplace(args, kwargs))


class RankTranspose(Base):
    api = 'TT.rank_transpose'
    prop = 'C02'

    def is_inplace(self, args, kwargs):
        ow = args[1] if len(args) > 1 else kwargs.get('overwrite', False)
        return ow is not False

    def value(self, st, res, args, kwargs):
        s = st['snaps'][0]
        if not _is_tt(res) or not tt_consistent(res)[0]:
            return
        d = s.order
        Db = s.dense_b()
        perm = [2 * d + 1] + [d - i for i in range(d)] + [2 * d - i for i in range(d)] + [0]
        want = np.transpose(Db, perm)
        got = dense_b_cores(res.cores)
        self.ck('value', got.shape == want.shape and close(got, want, TOL, scale=s.floor()), [s], {'shape': s.shape_sig()})
        self.ck('dims', list(res.row_dims) == s.row_dims[::-1] and list(res.col_dims) == s.col_dims[::-1] and list(res.ranks) == s.ranks[::-1], [s])
        core.ctx().sig(self.api, s.shape_sig(), self.is_inplace(args, kwargs))


class Diag(Base):
    api = 'TT.diag'
    prop = 'C02'

    def value(self, st, res, args, kwargs):
        s = st['snaps'][0]
        lst = args[1] if len(args) > 1 else kwargs.get('diag_list')
        d = s.order
        neg = any(int(i) < 0 for i in lst)
        lst = [int(i) % d for i in lst]  # (negative entries count from the back)
        if not _std(s) or not _is_tt(res) or not tt_consistent(res)[0]:
            return
        if any(s.col_dims[i] != 1 for i in lst):
            return
        D = s.dense()
        shape = list(D.shape)
        for i in lst:
            shape[d + i] = shape[i]
        if int(np.prod(shape)) > MAX_DENSE:
            return
        want = np.zeros(shape, dtype=complex)
        it = np.ndindex(*D.shape)
        for idx in it:
            j = list(idx)
            for i in lst:
                j[d + i] = idx[i]
            want[tuple(j)] = D[idx]
        got = _res_dense(res)
        self.ck('value', got.shape == want.shape and close(got, want, TOL, scale=s.floor()), [s], {'diag_list': lst, 'shape': s.shape_sig()})
        core.ctx().sig(self.api, s.shape_sig(), lst)


class Squeeze(Base):
    api = 'TT.squeeze'
    prop = 'C02'

    def value(self, st, res, args, kwargs):
        s = st['snaps'][0]
        if not _is_tt(res) or not tt_consistent(res)[0]:
            return
        d = s.order
        keep = [i for i in range(d) if not (s.row_dims[i] == 1 and s.col_dims[i] == 1)]
        if not keep:
            return
        if not _std(s):
            # a block of tensors (open boundary ranks, as tensordot / rank_tensordot / concatenate consume and produce them): the same
            # statement slice by slice - the boundary indices are not modes and stay
            from .dense import dense_b_cores
            D = dense_b_cores(s.cores)
            want = D.reshape([s.ranks[0]] + [s.row_dims[i] for i in keep] + [s.col_dims[i] for i in keep] + [s.ranks[-1]])
            got = dense_b_cores(res.cores)
            fl = float(np.max(np.abs(want))) if want.size else 0.0
            self.ck('value', got.shape == want.shape and close(got, want, TOL, scale=max(fl, 1e-300)), [s], {'shape': s.shape_sig(), 'boundary_ranks': [s.ranks[0], s.ranks[-1]]},
                    ['open_boundary_ranks', 'leading_removed' if keep[0] > 0 else 'leading_kept'])
            return
        D = s.dense()
        want = D.reshape([s.row_dims[i] for i in keep] + [s.col_dims[i] for i in keep])
        got = _res_dense(res)
        pos = 'none' if len(keep) == d else '+'.join(sorted(set(('leading' if i < keep[0] else 'trailing' if i > keep[-1] else 'inner')
                                                                   for i in range(d) if i not in keep)))
        self.ck('value', got.shape == want.shape and close(got, want, TOL, scale=s.floor()), [s], {'shape': s.shape_sig(), 'removed': pos}, ['removed=' + pos])
        self.ck('dims', list(res.row_dims) == [s.row_dims[i] for i in keep] and list(res.col_dims) == [s.col_dims[i] for i in keep], [s])
        core.ctx().sig(self.api, s.shape_sig(), pos)


def _split_axes(D, d, row_f, col_f):
    """reshape dense (m.., n..) so that every mode is split (C order) into its factors; returns array with axes
    (all row factors..., all col factors...)"""
    shape = []
    for f in row_f:
        shape += list(f)
    for f in col_f:
        shape += list(f)
    return D.reshape(shape)


class TT2QTT(Base):
    api = 'TT.tt2qtt'
    prop = 'C02'

    def value(self, st, res, args, kwargs):
        s = st['snaps'][0]
        names = ['row_dims', 'col_dims', 'threshold']
        v = {'threshold': 0}
        for i, a in enumerate(args[1:]):
            v[names[i]] = a
        v.update(kwargs)
        if not _std(s) or not _is_tt(res) or not tt_consistent(res)[0]:
            return
        rf = [list(f) for f in v['row_dims']]
        cf = [list(f) for f in v['col_dims']]
        flat_r = [x for f in rf for x in f]
        flat_c = [x for f in cf for x in f]
        self.ck('dims', list(res.row_dims) == flat_r and list(res.col_dims) == flat_c, [s], {'row': rf, 'col': cf, 'got': [res.row_dims, res.col_dims]})
        if v['threshold'] != 0:
            return
        want = _split_axes(s.dense(), s.order, rf, cf)
        got = _res_dense(res)
        self.ck('value', got.shape == want.shape and close(got, want, TOL, scale=s.floor()), [s], {'row': rf, 'col': cf, 'shape': s.shape_sig()})
        core.ctx().sig(self.api, s.shape_sig(), rf, cf)


class QTT2TT(Base):
    api = 'TT.qtt2tt'
    prop = 'C02'

    def value(self, st, res, args, kwargs):
        s = st['snaps'][0]
        mn = list(args[1] if len(args) > 1 else kwargs.get('merge_numbers'))
        if not _std(s) or not _is_tt(res) or not tt_consistent(res)[0] or sum(mn) != s.order:
            return
        rows, cols, k = [], [], 0
        for m in mn:
            rows.append(int(np.prod(s.row_dims[k:k + m])))
            cols.append(int(np.prod(s.col_dims[k:k + m])))
            k += m
        want = s.dense().reshape(rows + cols)
        got = _res_dense(res)
        self.ck('dims', list(res.row_dims) == rows and list(res.col_dims) == cols, [s])
        self.ck('value', got.shape == want.shape and close(got, want, TOL, scale=s.floor()), [s], {'merge': mn, 'shape': s.shape_sig()})
        core.ctx().sig(self.api, s.shape_sig(), mn)


class BuildCore(probe.Contract):
    prop = 'C02'
    freeze = True

    def __init__(self, name):
        self.api = 'tt.' + name
        self.name = name

    def pre(self, args, kwargs):
        return None

    def post(self, st, res, args, kwargs):
        c = core.ctx()
        lst = args[0] if args else kwargs.get('matrix_list')
        if not isinstance(lst, list) or len(lst) == 0:
            return
        nested = isinstance(lst[0], list)
        rows = lst if nested else [[x] for x in lst]
        arrs = [x for r in rows for x in r if isinstance(x, np.ndarray)]
        if not arrs or not isinstance(res, np.ndarray):
            return
        a0 = arrs[0]
        m, n = (a0.shape[0], 1) if a0.ndim == 1 else a0.shape
        r1, r2 = len(rows), len(rows[0])
        anyc = any(np.iscomplexobj(x) for x in arrs)
        iscomplex_flag = (args[1] if len(args) > 1 else kwargs.get('iscomplex', kwargs.get('field_type', False)))
        tags = ['complex_blocks' if anyc else 'real_blocks', 'nested' if nested else 'flat', 'flag=%s' % iscomplex_flag]
        ok_shape = res.shape == (r1, m, n, r2)
        c.check(self.api, 'shape', ok_shape, tags if not ok_shape else (), {'got': res.shape, 'want': (r1, m, n, r2)}, prop='C02')
        if not ok_shape:
            return
        bad = None
        for i in range(r1):
            for j in range(r2):
                x = rows[i][j]
                want = np.zeros((m, n)) if not isinstance(x, np.ndarray) else x.reshape(m, n)
                if not close(res[i, :, :, j], want, 1e-12, scale=1.0 if not isinstance(x, np.ndarray) else None) \
                        or (not isinstance(x, np.ndarray) and np.any(res[i, :, :, j] != 0)):
                    bad = (i, j)
        c.check(self.api, 'blocks', bad is None, tags if bad is not None else (), {'block': bad, 'r1': r1, 'r2': r2, 'm': m, 'n': n}, prop='C02')
        c.sig(self.api, r1, r2, m, n, anyc, nested, bool(iscomplex_flag), sum(1 for r in rows for x in r if not isinstance(x, np.ndarray)))


# ======================================================================================= C03/C04 ==

def _gram_err_left(cr):
    r1, m, n, r2 = cr.shape
    U = cr.reshape(r1 * m * n, r2)
    return float(np.max(np.abs(U.conj().T @ U - np.eye(r2)))) if r2 > 0 else 0.0


def _gram_err_right(cr):
    r1, m, n, r2 = cr.shape
    V = cr.reshape(r1, m * n * r2)
    return float(np.max(np.abs(V @ V.conj().T - np.eye(r1)))) if r1 > 0 else 0.0


def unfolding_svals(Db, d):
    """singular values of the k-th unfolding (k = 1..d-1) of a dense tensor given with boundary axes
    (r0, m_1..m_d, n_1..n_d, rd); unfolding k groups (r0, m_1 n_1 .. m_k n_k) x (rest, rd)"""
    perm = [0] + [x for i in range(d) for x in (1 + i, 1 + d + i)] + [2 * d + 1]
    Y = np.transpose(Db, perm)
    sh = Y.shape
    out = []
    for k in range(1, d):
        rows = int(np.prod(sh[:1 + 2 * k]))
        out.append(np.linalg.svd(Y.reshape(rows, -1), compute_uv=False))
    return out


def _maxranks(v, d):
    if isinstance(v, list):
        return list(v)
    return [1] + [v] * (d - 1) + [1]


class OrthoBase(Base):
    prop = 'C03'
    inplace_kw = True
    side = 'left'

    def parse(self, args, kwargs, order):
        raise NotImplementedError

    def value(self, st, res, args, kwargs):
        s = st['snaps'][0]
        t = args[0]
        c = core.ctx()
        d = s.order
        v = self.parse(args, kwargs, d)
        self.ck('returns_self', res is t, [s])
        ok, why = tt_consistent(t)
        self.ck('consistent_after', ok, [s], {'why': why})
        if not ok:
            return
        thr, mr = v['threshold'], v['max_rank']
        for (key, obj, before) in st.get('plain') or []:
            if obj is mr:
                mr = before  # the request as written by the caller at call time (the list may have been rewritten meanwhile)
        exact = (thr == 0) and (not isinstance(mr, list)) and mr == np.inf
        if thr == 0 and isinstance(mr, list) and len(mr) == d + 1:
            # a per-bond list none of whose entries binds (every bound at least the rank of its bond): still a sweep without truncation
            try:
                exact = all(float(m_) >= float(r_) for m_, r_ in zip(mr, s.ranks))
            except Exception:
                exact = False
        tags = ['side=' + self.side]
        Dold = s.dense_b()
        Dnew = dense_b_cores(t.cores)
        sc = float(np.max(np.abs(Dold))) if Dold.size else 0.0
        sig = [self.api, s.shape_sig(), exact, v.get('range')]
        if exact and isinstance(mr, list):
            self.ck('rank_bound', all(t.ranks[k] <= mr[k] for k in range(d + 1)), [s], {'max_ranks': list(mr), 'ranks': list(t.ranks)}, tags, prop='C04')
            self.ck('ranks_not_increased', all(a <= b for a, b in zip(t.ranks, s.ranks)), [s], {'old': s.ranks, 'new': list(t.ranks)}, tags, prop='C04')
        if exact:
            self.ck('value_preserved', Dnew.shape == Dold.shape and close(Dnew, Dold, 1e-9, scale=s.floor()), [s],
                    {'relerr': relerr(Dnew, Dold), 'shape': s.shape_sig(), 'range': v.get('range')}, tags)
            self.ck('ranks_not_increased', all(a <= b for a, b in zip(t.ranks, s.ranks)), [s], {'old': s.ranks, 'new': list(t.ranks)}, tags)
            for (i, sd) in v['processed']:
                if 0 <= i < d:
                    g = _gram_err_left(t.cores[i]) if sd == 'left' else _gram_err_right(t.cores[i])
                    self.ck('isometry', g <= 1e-9, [s], {'core': i, 'side': sd, 'gram_err': g, 'shape': s.shape_sig()}, ['side=' + sd])
            touched = set(v['touched'])
            same = all(np.array_equal(t.cores[i], s.cores[i]) for i in range(d) if i not in touched)
            self.ck('untouched_cores_unchanged', same, [s], {'touched': sorted(touched), 'range': v.get('range')}, tags)
        else:
            # ---- C04: truncation bounded in rank and error
            mrs = _maxranks(mr, d)
            bonds = v['bonds']
            okr = all(t.ranks[k] <= mrs[k] for k in bonds if mrs[k] != np.inf)
            self.ck('rank_bound', okr, [s], {'max_ranks': [x if x != np.inf else 'inf' for x in mrs], 'ranks': list(t.ranks), 'bonds': bonds}, tags, prop='C04')
            self.ck('ranks_not_increased', all(a <= b for a, b in zip(t.ranks, s.ranks)), [s], {'old': s.ranks, 'new': list(t.ranks)}, tags, prop='C04')
            if Dold.size and not np.any(Dold):
                # the exactly-zero tensor: every error bound of the statement is 0 for it, whatever threshold or rank cap is requested
                self.ck('zero_tensor_stays_zero', Dnew.shape == Dold.shape and not np.any(Dnew), [s], {'ranks': list(t.ranks)}, tags, prop='C04')
            if thr == 0 and v.get('quasi_optimal_applicable', lambda snap: False)(s):
                sv = unfolding_svals(Dold, d)
                bound2 = 0.0
                for k in bonds:
                    r = t.ranks[k]
                    bound2 += float(np.sum(sv[k - 1][r:] ** 2))
                err = float(np.linalg.norm((Dnew - Dold).reshape(-1)))
                nrm = float(np.linalg.norm(Dold.reshape(-1)))
                self.ck('quasi_optimal_error', err <= (1 + 1e-8) * np.sqrt(bound2) + 1e-10 * nrm + 1e-9 * s.floor(), [s],
                        {'err': err, 'bound': float(np.sqrt(bound2)), 'ranks': list(t.ranks), 'old_ranks': s.ranks}, tags, prop='C04')
                sig.append('qo')
            sig.append(['thr' if thr else 'nothr', 'list' if isinstance(mr, list) else ('inf' if mr == np.inf else int(mr))])
        c.sig(*sig)


class OrthoLeft(OrthoBase):
    api = 'TT.ortho_left'
    side = 'left'

    def parse(self, args, kwargs, d):
        names = ['start_index', 'end_index', 'threshold', 'max_rank', 'progress', 'string']
        v = {'start_index': 0, 'end_index': None, 'threshold': 0.0, 'max_rank': np.inf}
        for i, a in enumerate(args[1:]):
            v[names[i]] = a
        v.update(kwargs)
        st = v['start_index']
        en = d - 2 if v['end_index'] is None else v['end_index']
        rng = list(range(st, en + 1))
        v['processed'] = [(i, 'left') for i in rng]
        v['touched'] = rng + ([en + 1] if rng else [])
        v['bonds'] = [i + 1 for i in rng]
        v['range'] = 'full' if (st == 0 and en == d - 2) else ('empty' if not rng else 'partial')

        def applicable(snap):  # truncation of bond k is optimal only if everything to the right is right-orthonormal
            return st == 0 and en == d - 2 and all(_gram_err_right(snap.cores[i]) <= 1e-10 for i in range(1, d))
        v['quasi_optimal_applicable'] = applicable
        return v


class OrthoRight(OrthoBase):
    api = 'TT.ortho_right'
    side = 'right'

    def parse(self, args, kwargs, d):
        names = ['start_index', 'end_index', 'threshold', 'max_rank']
        v = {'start_index': None, 'end_index': 1, 'threshold': 0, 'max_rank': np.inf}
        for i, a in enumerate(args[1:]):
            v[names[i]] = a
        v.update(kwargs)
        st = d - 1 if v['start_index'] is None else v['start_index']
        en = v['end_index']
        rng = list(range(st, en - 1, -1))
        v['processed'] = [(i, 'right') for i in rng]
        v['touched'] = rng + ([en - 1] if rng else [])
        v['bonds'] = [i for i in rng]
        v['range'] = 'full' if (st == d - 1 and en == 1) else ('empty' if not rng else 'partial')

        def applicable(snap):
            return st == d - 1 and en == 1 and all(_gram_err_left(snap.cores[i]) <= 1e-10 for i in range(0, d - 1))
        v['quasi_optimal_applicable'] = applicable
        return v


class Ortho(OrthoBase):
    api = 'TT.ortho'
    side = 'both'

    def parse(self, args, kwargs, d):
        names = ['threshold', 'max_rank']
        v = {'threshold': 0, 'max_rank': np.inf}
        for i, a in enumerate(args[1:]):
            v[names[i]] = a
        v.update(kwargs)
        v['processed'] = [(i, 'right') for i in range(1, d)]
        v['touched'] = list(range(d))
        v['bonds'] = list(range(1, d))
        v['range'] = 'full'
        v['quasi_optimal_applicable'] = lambda snap: True
        return v


class Init(probe.Contract):
    """TT.__init__: array branch = TT-SVD with threshold / max_rank (C04); list branch with truncation delegates
    to ortho (contract above)."""
    api = 'TT.__init__'

    def pre(self, args, kwargs):
        from .contracts_api import snapshot_plain
        x = args[1] if len(args) > 1 else kwargs.get('x')
        self._plain = snapshot_plain((), {k: v for k, v in kwargs.items() if k == 'max_rank'})
        if isinstance(x, np.ndarray) and x.size <= MAX_DENSE:
            return {'x': np.array(x, copy=True)}
        return None

    def post(self, st, res, args, kwargs):
        t = args[0]
        c = core.ctx()
        from .contracts_api import check_plain
        check_plain(self.api, getattr(self, '_plain', None), prop='C04')
        ok, why = tt_consistent(t)
        c.check(self.api, 'consistent_after', ok, (), {'why': why}, prop='C06')
        if probe.S.depth == 0 and ok:
            probe.register_live(t, 'TT()')
        if st is None or not ok:
            return
        x = st['x']
        names = ['x', 'threshold', 'max_rank', 'progress', 'string']
        v = {'threshold': 0, 'max_rank': np.inf}
        for i, a in enumerate(args[1:]):
            v[names[i]] = a
        v.update(kwargs)
        thr, mr = v['threshold'], v['max_rank']
        x_arg = args[1] if len(args) > 1 else kwargs.get('x')
        c.check(self.api, 'array_argument_unchanged', np.array_equal(x, x_arg, equal_nan=True), (), None, prop='C06')
        if x.ndim % 2 or x.ndim == 0:
            return
        d = x.ndim // 2
        tags = ['order=%d' % d if d <= 2 else 'order>=3'] + (['complex'] if np.iscomplexobj(x) else [])
        got = dense_cores(t.cores)
        amax = float(np.max(np.abs(x))) if x.size else 0.0
        if np.isfinite(amax) and amax > 0 and (amax < 1e-100 or amax > 1e100) and got.shape == x.shape:
            # entries whose squares leave the floating-point range: the reference works on the array rescaled by an exact power of two
            # (every clause of the statement is homogeneous in the tensor)
            p2 = 2.0 ** np.floor(np.log2(amax))
            x, got = x / p2, got / p2
            tags = tags + ['extreme_scale']
        nrm = float(np.linalg.norm(x.reshape(-1)))
        err = float(np.linalg.norm((got - x).reshape(-1))) if got.shape == x.shape else np.inf
        c.check(self.api, 'dims', got.shape == x.shape, tags, {'got': got.shape, 'want': x.shape}, prop='C04')
        if got.shape != x.shape:
            return
        Db = x.reshape((1,) + x.shape + (1,))
        if thr == 0 and mr == np.inf:
            c.check(self.api, 'exact_without_truncation', err <= 1e-9 * nrm + 1e-300, tags, {'err': err, 'norm': nrm}, prop='C04')
        if mr != np.inf:
            c.check(self.api, 'rank_bound', all(r <= mr for r in t.ranks[1:-1]) and t.ranks[0] == 1 and t.ranks[-1] == 1, tags,
                    {'max_rank': mr, 'ranks': list(t.ranks)}, prop='C04')
        if mr != np.inf and thr == 0:
            sv = unfolding_svals(Db, d)
            b2 = sum(float(np.sum(sv[k - 1][t.ranks[k]:] ** 2)) for k in range(1, d))
            c.check(self.api, 'quasi_optimal_error', err <= (1 + 1e-8) * np.sqrt(b2) + 1e-10 * nrm, tags,
                    {'err': err, 'bound': float(np.sqrt(b2)), 'ranks': list(t.ranks), 'max_rank': mr}, prop='C04')
        if nrm == 0:
            c.check(self.api, 'zero_tensor_stays_zero', err == 0, tags, {'err': err, 'ranks': list(t.ranks), 'threshold': thr, 'max_rank': str(mr)}, prop='C04')
        if thr != 0 and mr == np.inf and nrm > 0:
            disc = 0
            for k in range(d - 1):
                left = t.ranks[k] * x.shape[k] * x.shape[d + k]
                right = int(np.prod([x.shape[j] * x.shape[d + j] for j in range(k + 1, d)]))
                disc += max(min(left, right) - t.ranks[k + 1], 0)
            c.check(self.api, 'threshold_error', err <= (1 + 1e-8) * thr * nrm * np.sqrt(disc) + 1e-12 * nrm, tags,
                    {'err': err, 'bound': thr * nrm * float(np.sqrt(disc)), 'threshold': thr, 'discarded': disc, 'ranks': list(t.ranks)}, prop='C04')
        c.sig(self.api, list(x.shape), bool(np.iscomplexobj(x)), 'thr' if thr else 'nothr', 'inf' if mr == np.inf else int(mr), list(t.ranks))


# ======================================================================================= C05 ====

def _flags_admissible(s, v):
    """svd / pinv with a sweep switched off: admissible exactly where the snapshot already is in the gauge that sweep would have
    established (measured on the pre-call snapshot): ortho_l=False needs cores 0..index-2 left-orthonormal, ortho_r=False needs
    cores index..d-1 right-orthonormal.  Returns (admissible, tag)."""
    idx = int(v['index'])
    fl, fr = v['ortho_l'] is True, v['ortho_r'] is True
    if fl and fr:
        return True, 'sweeps=both'
    okl = fl or all(_gram_err_left(c) <= 1e-10 for c in s.cores[:max(idx - 1, 0)])
    okr = fr or all(_gram_err_right(c) <= 1e-10 for c in s.cores[idx:])
    return (okl and okr), 'sweeps=%s' % ('none' if not (fl or fr) else ('right_only' if fr else 'left_only'))


class SVD(Base):
    api = 'TT.svd'
    prop = 'C05'

    def _args(self, args, kwargs):
        names = ['index', 'threshold', 'max_rank', 'ortho_l', 'ortho_r', 'overwrite']
        v = {'threshold': 0.0, 'max_rank': np.inf, 'ortho_l': True, 'ortho_r': True, 'overwrite': False}
        for i, a in enumerate(args[1:]):
            v[names[i]] = a
        v.update(kwargs)
        return v

    def is_inplace(self, args, kwargs):
        return self._args(args, kwargs)['overwrite'] is not False

    def value(self, st, res, args, kwargs):
        s = st['snaps'][0]
        v = self._args(args, kwargs)
        if not _std(s) or any(x != 1 for x in s.col_dims):
            return
        adm, sweeps = _flags_admissible(s, v)
        if not adm:
            core.ctx().skip('svd_sweep_switched_off_on_input_not_in_that_gauge')
            return
        try:
            u, sv, w = res
        except Exception:
            self.ck('returns_triple', False, [s])
            return
        if not (_is_tt(u) and _is_tt(w) and tt_consistent(u)[0] and tt_consistent(w)[0]):
            return
        idx = int(v['index'])
        d = s.order
        A = s.dense().reshape(int(np.prod(s.row_dims[:idx])), int(np.prod(s.row_dims[idx:])))
        U = dense_b_cores(u.cores).reshape(A.shape[0], -1)
        W = dense_b_cores(w.cores).reshape(-1, A.shape[1])
        r = len(sv)
        tags = ['index=%s' % ('first' if idx == 1 else 'last' if idx == d - 1 else 'inner'), sweeps]
        self.ck('shapes', U.shape[1] == r and W.shape[0] == r, [s], {'U': U.shape, 's': r, 'V': W.shape}, tags)
        if U.shape[1] != r or W.shape[0] != r:
            return
        self.ck('u_orthonormal_columns', float(np.max(np.abs(U.conj().T @ U - np.eye(r)))) <= 1e-9, [s], None, tags)
        self.ck('v_orthonormal_rows', float(np.max(np.abs(W @ W.conj().T - np.eye(r)))) <= 1e-9, [s], None, tags)
        strue = np.linalg.svd(A, compute_uv=False)
        if not strue.size or strue[0] <= 1e-6 * s.floor():  # (an exactly cancelling integer-valued train gives an exact 0 here)
            core.ctx().skip('svd_numerically_zero_tensor')
            return
        s0 = strue[0]
        thr, mr = v['threshold'], v['max_rank']
        # which clauses are decidable: no cut at all, or a relative cut that falls into a clear gap of every
        # unfolding spectrum (rank-deficient data with a threshold well below the non-zero part)
        untruncated = (thr == 0 and mr == np.inf)
        gap_ok = False
        if thr != 0 and mr == np.inf:
            allsv = unfolding_svals(s.dense_b(), d) if d > 1 else []
            gap_ok = all(not np.any((x / max(x[0], 1e-300) > thr * 1e-3) & (x / max(x[0], 1e-300) < thr * 1e3)) for x in allsv if x.size)
        if untruncated or gap_ok:
            keep = r
            want = strue[:keep]
            if not untruncated:
                nz = int(np.sum(strue / s0 > thr))
                self.ck('number_of_singular_values', r == nz, [s], {'got': r, 'want': nz, 'threshold': thr}, tags)
            if len(want) == r:
                self.ck('singular_values', close(np.asarray(sv), want, 1e-9, scale=s0), [s], {'got': np.asarray(sv), 'want': want}, tags)
            rec = U @ np.diag(sv) @ W
            tol = 1e-9 if untruncated else max(1e-9, 10 * thr)
            self.ck('reconstruction', close(rec, A, tol, scale=s0), [s], {'relerr': relerr(rec, A, s0), 'index': idx, 'shape': s.shape_sig()}, tags)
        else:
            core.ctx().skip('svd_cut_not_in_gap')
        if mr != np.inf:
            self.ck('max_rank', r <= mr, [s], {'r': r, 'max_rank': mr}, tags)
        core.ctx().sig(self.api, s.shape_sig(), tags[0], 'thr' if thr else 'nothr', 'inf' if mr == np.inf else int(mr), bool(v['overwrite']),
                       int(np.sum(strue / s0 > 1e-12)) < min(A.shape))


def s_rank_bound(s, idx):
    return s.ranks[idx]


class Pinv(Base):
    api = 'TT.pinv'
    prop = 'C05'

    def _args(self, args, kwargs):
        names = ['index', 'threshold', 'ortho_l', 'ortho_r', 'overwrite']
        v = {'threshold': 0.0, 'ortho_l': True, 'ortho_r': True, 'overwrite': False}
        for i, a in enumerate(args[1:]):
            v[names[i]] = a
        v.update(kwargs)
        return v

    def is_inplace(self, args, kwargs):
        return self._args(args, kwargs)['overwrite'] is not False

    def value(self, st, res, args, kwargs):
        s = st['snaps'][0]
        v = self._args(args, kwargs)
        if not _std(s) or any(x != 1 for x in s.col_dims):
            return
        adm, sweeps = _flags_admissible(s, v)
        if not adm:
            core.ctx().skip('pinv_sweep_switched_off_on_input_not_in_that_gauge')
            return
        if not _is_tt(res) or not tt_consistent(res)[0]:
            return
        idx = int(v['index'])
        d = s.order
        A = s.dense().reshape(int(np.prod(s.row_dims[:idx])), int(np.prod(s.row_dims[idx:])))
        strue = np.linalg.svd(A, compute_uv=False)
        if not strue.size or strue[0] <= 1e-6 * s.floor():
            core.ctx().skip('pinv_numerically_zero_tensor')
            return
        s0 = strue[0]
        thr = v['threshold']
        rel = strue / s0
        allsv = unfolding_svals(s.dense_b(), d) if d > 1 else []
        if thr == 0:
            decidable = all(x.size == 0 or x[-1] / max(x[0], 1e-300) > 1e-8 for x in allsv)  # every unfolding numerically full rank
            rcond = 1e-15
        else:
            decidable = all(not np.any((x / max(x[0], 1e-300) > thr * 1e-3) & (x / max(x[0], 1e-300) < thr * 1e3)) for x in allsv if x.size)
            rcond = thr
        if not decidable:
            core.ctx().skip('pinv_cut_not_in_gap')
            return
        want = np.conj(np.linalg.pinv(A, rcond=rcond)).T
        got = dense_cores(res.cores).reshape(A.shape) if list(res.row_dims) == s.row_dims else None
        tags = ['index=%s' % ('first' if idx == 1 else 'last' if idx == d - 1 else 'inner'), sweeps]
        smin = float(np.min(strue[rel > rcond])) if np.any(rel > rcond) else s0
        tol = 1e-8 * (s0 / smin) ** 1 if thr == 0 else max(1e-8, 10 * thr) * (s0 / smin)
        self.ck('dims', got is not None, [s], None, tags)
        if got is not None:
            self.ck('value', close(got, want, min(tol, 1e-3), scale=1.0 / smin), [s], {'relerr': relerr(got, want, 1.0 / smin), 'index': idx, 'threshold': thr,
                                                                                   'shape': s.shape_sig()}, tags)
        core.ctx().sig(self.api, s.shape_sig(), tags[0], 'thr' if thr else 'nothr', bool(v['overwrite']), int(np.sum(rel > 1e-12)) < min(A.shape))


# ======================================================================================= install ==

def install(tt_module, use_icontract=True):
    """wrap the real attributes of scikit_tt.tensor_train"""
    global TT, ttmod
    ttmod = tt_module
    TT = tt_module.TT
    table = {'full': Full, 'matricize': Matricize, 'element': Element, '__add__': Add, '__sub__': Sub, '__mul__': Mul,
             '__rmul__': RMul, '__matmul__': MatMul, 'transpose': Transpose, 'conj': Conj, 'copy': Copy, 'norm': Norm,
             'tensordot': Tensordot, 'rank_tensordot': RankTensordot, 'concatenate': Concatenate,
             'rank_transpose': RankTranspose, 'diag': Diag, 'squeeze': Squeeze, 'tt2qtt': TT2QTT, 'qtt2tt': QTT2TT,
             'ortho_left': OrthoLeft, 'ortho_right': OrthoRight, 'ortho': Ortho, 'svd': SVD, 'pinv': Pinv, '__init__': Init}
    for name, cls in table.items():
        probe.install(TT, name, cls())
    for name in ('zeros', 'ones', 'eye', 'unit', 'uniform', 'rand', 'canonical'):
        probe.install(tt_module, name, Constructor(name), replace_everywhere=True)
    probe.install(tt_module, 'residual_error', ResidualError(), replace_everywhere=True)
    for name in ('build_core', 'build_core_vector'):
        probe.install(tt_module, name, BuildCore(name), replace_everywhere=True)
    n_inv = 0
    if use_icontract:
        n_inv = install_icontract_invariant()
    return n_inv


# ---- M3 through icontract: class invariant on TT (record-and-return) ---------------------------------

class InvariantBroken(Exception):
    pass


def tt_invariant(self):
    if probe.S.busy or not probe.S.armed:
        return True
    probe.S.busy += 1
    try:
        c = core.ctx()
        ok, why = tt_consistent(self)
        # an object is legitimately in flux while one of its own in-place methods runs
        if not ok and any(self is t for t in probe.S.targets):
            return True
        c.check('TT', 'class_invariant', ok, ['why=' + why.split(' (')[0][:40]] if not ok else (), {'why': why}, prop='C06')
    except Exception:
        probe.monitor_error('TT', 'invariant')
    finally:
        probe.S.busy -= 1
    return True


def install_icontract_invariant():
    try:
        import icontract
    except Exception:
        core.ctx().events['icontract_unavailable'] += 1
        return 0
    icontract.invariant(tt_invariant, error=InvariantBroken)(TT)
    core.ctx().events['icontract_invariant_installed'] += 1
    return 1
