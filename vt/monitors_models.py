"""Contracts for C13 on scikit_tt.models: generator tests (dense, or in TT form for large state spaces), unitarity and
DFT identities of the circuit models, defining formulas of the Hamiltonians / coefficient tensors / fractals."""
import importlib
import itertools

import numpy as np

from . import core, probe
from .contracts_tt import _is_tt, check_returned
from .dense import dense_cores, dense_b_cores, mat, tt_consistent

P = 'C13'
mdl = None


def col_sums_tt(cores):
    """ones^T G in TT form: sum every core over its row index, then contract (dense vector over the column indices)"""
    red = [np.sum(c, axis=1, keepdims=True) for c in cores]
    return dense_cores(red).reshape(-1)


def entry_tt(cores, rows, cols):
    v = np.ones((1, 1))
    for c, i, j in zip(cores, rows, cols):
        v = v @ c[:, i, j, :]
    return v[0, 0]


def generator_checks(c, api, t, tags, rng_seed=0):
    """column sums vanish, off-diagonals non-negative (all entries if small, 10^4 sampled ones otherwise)"""
    dims = list(t.row_dims)
    n = int(np.prod(dims, dtype=np.int64))
    scale = max(float(np.max(np.abs(cr))) for cr in t.cores) ** 1
    if n <= 2 ** 20:
        cs = col_sums_tt(t.cores)
        sc = 1.0
        for cr in t.cores:
            sc *= max(float(np.max(np.abs(np.sum(np.abs(cr), axis=1)))), 1e-300)
        c.check(api, 'column_sums_vanish', float(np.max(np.abs(cs))) <= 1e-9 * max(sc, 1e-300), tags, {'max_abs_column_sum': float(np.max(np.abs(cs))), 'dims': dims}, prop=P)
    else:
        c.skip('generator_too_large_for_column_sums')
    if n <= 3200:
        G = mat(dense_cores(t.cores))
        off = G - np.diag(np.diag(G))
        sc = max(float(np.max(np.abs(G))), 1e-300)
        c.check(api, 'off_diagonals_non_negative', float(np.min(off)) >= -1e-12 * sc, tags, {'min_offdiag': float(np.min(off)), 'dims': dims, 'entries': int(G.size)}, prop=P)
        c.check(api, 'diagonal_non_positive', float(np.max(np.diag(G))) <= 1e-12 * sc, tags, prop=P)
    else:
        rng = np.random.default_rng(rng_seed)
        worst, sc = 0.0, 0.0
        for _ in range(10000):
            r = [int(rng.integers(0, m)) for m in dims]
            s = list(r)
            k = int(rng.integers(0, len(dims)))
            # neighbours of the diagonal are where generators have their mass: perturb 1-2 coordinates
            for kk in {k, int(rng.integers(0, len(dims)))}:
                s[kk] = int(np.clip(s[kk] + int(rng.integers(-2, 3)), 0, dims[kk] - 1))
            if s == r:
                continue
            e = entry_tt(t.cores, r, s)
            worst = min(worst, e)
            sc = max(sc, abs(e))
        c.check(api, 'off_diagonals_non_negative', worst >= -1e-12 * max(sc, 1e-300), tags, {'min_sampled_offdiag': worst, 'dims': dims, 'sampled': 10000}, prop=P)


def unitary_check(c, api, t, tags, what='unitary'):
    U = mat(dense_cores(t.cores))
    err = float(np.max(np.abs(U.conj().T @ U - np.eye(U.shape[0]))))
    c.check(api, what, U.shape[0] == U.shape[1] and err <= 1e-10, tags, {'n': U.shape[0], 'err': err}, prop=P)
    return U


def apply_tt_operator(cores, V):
    """(TT operator) @ V for a batch V of shape (prod col_dims, k), core by core (nothing of size N x N is formed)"""
    k = V.shape[1]
    T = V.reshape(1, V.shape[0], 1, k)  # (bond, remaining input modes, finished output modes, batch)
    for cr in cores:
        r, m, nn, r2 = cr.shape
        rest = T.shape[1] // nn
        T = T.reshape(r, nn, rest, T.shape[2], k)
        T = np.einsum('amnb,anRMk->bRMmk', cr, T).reshape(r2, rest, -1, k)
    return T.reshape(-1, k)


def bitrev_dft(n):
    N = 2 ** n
    F = np.exp(2j * np.pi * np.outer(np.arange(N), np.arange(N)) / N) / np.sqrt(N)
    rev = [int(np.binary_repr(i, width=n)[::-1], 2) if n > 0 else 0 for i in range(N)]
    return F[rev, :]


class Model(probe.Contract):
    freeze = True  # the oracle sees the arguments as they were at call entry; arrays / lists rewritten by the call are reported
    input_prop = P
    def __init__(self, name):
        self.api = 'models.' + name
        self.name = name

    def post(self, st, res, args, kwargs):
        c = core.ctx()
        check_returned(self.api, res)
        # every bundled model is an operator / a coefficient tensor with closed ends: a train that is inconsistent or has an open boundary rank
        # is not such an object whatever its entries are (decided here, so that the model-specific oracle is not run on something it cannot densify)
        from .contracts_tt import _find_tts
        from .dense import tt_consistent
        for t_ in _find_tts([res], []):
            ok_, why_ = tt_consistent(t_)
            closed = ok_ and t_.ranks[0] == 1 and t_.ranks[-1] == 1
            c.check(self.api, 'returns_consistent_train_with_closed_ends', bool(closed), ['model=' + self.name], {'ranks': list(getattr(t_, 'ranks', [])), 'why': why_} if not closed else None, prop=P)
            if not closed:
                return
        getattr(self, 'm_' + self.name)(c, res, args, kwargs)

    # ---- Markov generators
    def m_co_oxidation(self, c, t, a, kw):
        order, k = a[0], a[1]
        cyc = a[2] if len(a) > 2 else kw.get('cyclic', True)
        generator_checks(c, self.api, t, ['cyclic' if cyc else 'open', 'order=%d' % order])
        # independent reaction table (RuO2 model: 0 empty, 1 O, 2 CO)
        from .monitors_markov import generator_by_enumeration
        if 3 ** order <= 243:
            single = [[[0, 2, k], [2, 0, 9.2e6]]] * order
            two_r = [[0, 1, 0, 1, 9.7e7], [1, 0, 1, 0, 2.8e1], [2, 0, 1, 0, 1.7e5], [1, 0, 2, 0, 1.7e5], [1, 0, 0, 1, 5.0e-1], [0, 1, 1, 0, 5.0e-1],
                     [0, 2, 2, 0, 6.6e-2], [2, 0, 0, 2, 6.6e-2]]
            two = [two_r] * (order if cyc else order - 1)
            G = generator_by_enumeration([3] * order, single, two, cyc)
            got = mat(dense_cores(t.cores))
            c.check(self.api, 'equals_reaction_network_generator', got.shape == G.shape and float(np.max(np.abs(got - G))) <= 1e-9 * float(np.max(np.abs(G))),
                    ['cyclic' if cyc else 'open', 'order=%d' % order], {'order': order, 'k_ad_co': k}, prop=P)
        c.sig(self.api, order, bool(cyc), float(np.log10(k)) // 1)

    def m_signaling_cascade(self, c, t, a, kw):
        generator_checks(c, self.api, t, ['d=%d' % a[0]])
        c.sig(self.api, a[0])

    def m_toll_station(self, c, t, a, kw):
        generator_checks(c, self.api, t, ['lanes=%d' % a[0], 'cars=%d' % a[1]])
        c.sig(self.api, a[0], a[1])

    def m_two_step_destruction(self, c, t, a, kw):
        generator_checks(c, self.api, t, ['m=%d' % a[3]])
        c.sig(self.api, a[3], [round(float(np.log10(x)), 1) for x in a[:3]])

    # ---- circuits
    def m_qft(self, c, G, a, kw, sign=+1):
        n = a[0]
        ok = isinstance(G, list) and len(G) == n and all(_is_tt(g) and tt_consistent(g)[0] for g in G)
        c.check(self.api, 'one_gate_group_per_qubit', ok, ['n=%d' % n], prop=P)
        if not ok:
            return
        if n > 16:
            self.qft_structural(c, G, n, sign)
            return
        if n > 8:
            self.qft_by_action(c, G, n, sign)
            return
        prod = np.eye(2 ** n, dtype=complex)
        for k, g in enumerate(G):
            U = unitary_check(c, self.api, g, ['n=%d' % n, 'group=%s' % ('first' if k == 0 else 'last' if k == n - 1 else 'inner')], 'gate_group_unitary')
            prod = U @ prod
        want = bitrev_dft(n)
        if sign < 0:
            want = np.conj(want)
        err = float(np.max(np.abs(prod - want)))
        c.check(self.api, 'groups_multiply_to_bit_reversed_dft', err <= 1e-10, ['n=%d' % n], {'n': n, 'err': err}, prop=P)
        c.sig(self.api, n)

    def qft_structural(self, c, G, n, sign):
        """registers beyond any dense vector (n > 16): every gate group must have finite entries and be unitary, decided exactly from the
        cores: ||G^H G - I||_F^2 / 2^n = t2 - 2 t1 + 1 with t1 = tr(G^H G) / 2^n and t2 = tr((G^H G)^2) / 2^n, both obtained by transfer-matrix
        contractions over the sites (bond dimensions r^2 and r^4, each site normalised by 1/2)"""
        worst, finite = 0.0, True
        for k, g in enumerate(G):
            cores = [np.asarray(cr) for cr in g.cores]
            if not all(np.all(np.isfinite(cr)) for cr in cores):
                finite = False
                c.check(self.api, 'gate_group_entries_finite', False, ['n>16', 'group=%d' % k if k < 3 else 'group>=3'], {'n': n, 'group': k}, prop=P)
                break
            if max(g.ranks) > 4:
                continue
            T1 = np.ones((1, 1), dtype=complex)
            T2 = np.ones((1, 1), dtype=complex)
            for cr in cores:
                # A[a, i, j, b]: operator core; (G^H G) core: sum_i conj(A[a,i,j,b]) A[a',i,j',b']
                M = np.einsum('aijb,cikd->acjkbd', np.conj(cr), cr)  # (a, c, j, k, b, d)
                ra, rb = cr.shape[0] ** 2, cr.shape[3] ** 2
                Mm = M.reshape(ra, cr.shape[2], cr.shape[2], rb)
                T1 = T1 @ (np.einsum('ajjb->ab', Mm) / 2.0)
                T2 = T2 @ (np.einsum('ajkb,ckjd->acbd', Mm, Mm).reshape(ra * ra, rb * rb) / 2.0)
            t1, t2 = complex(T1[0, 0]), complex(T2[0, 0])
            worst = max(worst, abs(t2 - 2 * t1 + 1))
        if finite:
            c.check(self.api, 'gate_group_entries_finite', True, ['n>16'], prop=P)
            c.check(self.api, 'gate_group_unitary', worst <= 1e-10, ['n>16'], {'n': n, 'worst_normalised_defect': worst}, prop=P)
        c.sig(self.api, 'structural', n // 16)

    def qft_by_action(self, c, G, n, sign):
        """larger registers: the gate groups are applied, in TT form, to a batch of random complex vectors and unit vectors; every group
        must preserve the Gram matrix of the batch (unitarity on the sample) and the product must act as the bit-reversed DFT (FFT)"""
        N = 2 ** n
        rs = np.random.default_rng(n * 7919 + (1 if sign > 0 else 2))
        V = rs.standard_normal((N, 12)) + 1j * rs.standard_normal((N, 12))
        E = np.zeros((N, 4), dtype=complex)
        for col, j in enumerate([0, 1, N - 1, int(rs.integers(0, N))]):
            E[j, col] = 1.0
        V = np.concatenate([V, E], axis=1)
        W = V
        for k, g in enumerate(G):
            W2 = apply_tt_operator(g.cores, W)
            err = float(np.max(np.abs(W2.conj().T @ W2 - W.conj().T @ W))) / N
            c.check(self.api, 'gate_group_unitary', err <= 1e-10, ['n=%d' % n, 'group=%s' % ('first' if k == 0 else 'last' if k == n - 1 else 'inner'), 'by_action_on_sample'],
                    {'n': n, 'err': err}, prop=P)
            W = W2
        rev = np.array([int(np.binary_repr(i, width=n)[::-1], 2) for i in range(N)])
        want = (np.fft.ifft(V, axis=0) * np.sqrt(N))[rev, :] if sign > 0 else (np.fft.fft(V, axis=0) / np.sqrt(N))[rev, :]
        err = float(np.max(np.abs(W - want))) / max(1.0, float(np.max(np.abs(want))))
        c.check(self.api, 'groups_multiply_to_bit_reversed_dft', err <= 1e-10, ['n=%d' % n, 'by_action_on_sample'], {'n': n, 'err': err}, prop=P)
        c.sig(self.api, n)

    def m_iqft(self, c, G, a, kw):
        self.m_qft(c, G, a, kw, sign=-1)

    def m_qfa(self, c, t, a, kw):
        U = unitary_check(c, self.api, t, [])
        # a full adder maps basis states to basis states
        c.check(self.api, 'permutation_matrix', bool(np.all((np.abs(U) < 1e-12) | (np.abs(U - 1) < 1e-12))), [], prop=P)
        c.sig(self.api)

    def m_qfan(self, c, t, a, kw):
        U = unitary_check(c, self.api, t, ['adders=%d' % a[0]])
        c.check(self.api, 'permutation_matrix', bool(np.all((np.abs(U) < 1e-12) | (np.abs(U - 1) < 1e-12))), ['adders=%d' % a[0]], prop=P)
        c.check(self.api, 'order', t.order == 3 * a[0] + 1, ['adders=%d' % a[0]], prop=P)
        c.sig(self.api, a[0])

    def m_shor(self, c, t, a, kw):
        av = a[0]
        tags = ['a=%d' % av]
        # the first six qubits carry identities (rank-1 bond in front of qubit 7): U = I_64 (x) U'
        first = dense_b_cores(t.cores[:6])
        r = first.shape[-1]
        ident = r == 1 and np.allclose(mat(first[0, ..., 0]), mat(first[0, ..., 0])[0, 0] * np.eye(64), atol=1e-12)
        c.check(self.api, 'leading_register_untouched', bool(ident), tags, prop=P)
        if ident:
            s = mat(first[0, ..., 0])[0, 0]
            rest = dense_b_cores(t.cores[6:])[0, ..., 0] * s
            U = mat(rest)
            err = float(np.max(np.abs(U.conj().T @ U - np.eye(U.shape[0]))))
            c.check(self.api, 'unitary', err <= 1e-10, tags, {'err': err}, prop=P)
            # oracle semantics: |j>|y> -> |j>|y xor (a^j mod 15)> on the 2-qubit exponent / 4-qubit work register
            W = np.zeros((64, 64))
            for j in range(4):
                mval = (av ** j) % 15
                for y in range(16):
                    W[j * 16 + (y ^ mval), j * 16 + y] = 1
            c.check(self.api, 'modular_exponentiation_oracle', float(np.max(np.abs(U - W))) <= 1e-10, tags, prop=P)
        c.sig(self.api, av)

    # ---- Hamiltonians / energies
    def m_exciton_chain(self, c, t, a, kw):
        n, alpha, beta = a[0], a[1], a[2]
        if n > 10:
            return
        up = np.diag([1.0], -1)
        dn = np.diag([1.0], 1)
        num = up @ dn

        def emb(ops):
            M = np.ones((1, 1))
            for k in range(n):
                M = np.kron(M, ops.get(k, np.eye(2)))
            return M
        H = np.zeros((2 ** n, 2 ** n))
        for i in range(n):
            H += alpha * emb({i: num})
            j = (i + 1) % n
            if j != i:
                H += beta * (emb({i: up, j: dn}) + emb({i: dn, j: up}))
        got = mat(dense_cores(t.cores))
        sc = max(float(np.max(np.abs(H))), 1e-300)
        c.check(self.api, 'equals_periodic_chain_hamiltonian', got.shape == H.shape and float(np.max(np.abs(got - H))) <= 1e-12 * sc, ['n=%d' % n if n <= 3 else 'n>3'],
                {'n': n, 'alpha': alpha, 'beta': beta}, prop=P)
        c.check(self.api, 'hermitian', float(np.max(np.abs(got - got.conj().T))) <= 1e-12 * sc, [], prop=P)
        c.sig(self.api, n)

    def m_ising(self, c, t, a, kw):
        d, J, h = a[0], a[1], a[2]
        if d > 14:
            return
        got = dense_cores(t.cores).reshape([2] * d)
        spins = np.array([1.0, -1.0])
        want = np.zeros([2] * d)
        for idx in itertools.product(range(2), repeat=d):
            x = spins[list(idx)]
            want[idx] = -J * float(np.sum(x[:-1] * x[1:])) - h * float(np.sum(x))
        sc = max(float(np.max(np.abs(want))), 1e-300)
        c.check(self.api, 'equals_energy_function', got.shape == want.shape and float(np.max(np.abs(got - want))) <= 1e-12 * sc, ['d=%d' % d if d <= 3 else 'd>3'], {'d': d, 'J': J, 'h': h}, prop=P)
        c.sig(self.api, d)

    def m_fpu_coefficients(self, c, t, a, kw):
        d = a[0]
        if d > 7:
            return
        Xi = dense_cores(t.cores).reshape([4] * d + [d])
        rng = np.random.default_rng(d)
        worst = 0.0
        for _ in range(20):
            x = rng.uniform(-1, 1, size=d)
            psi = [np.array([1.0, xi, xi ** 2, xi ** 3]) for xi in x]
            v = Xi
            for k in range(d):
                v = np.tensordot(psi[k], v, axes=([0], [0]))
            xe = np.concatenate([[0.0], x, [0.0]])
            rhs = np.array([(xe[i + 2] - 2 * xe[i + 1] + xe[i]) + 0.7 * ((xe[i + 2] - xe[i + 1]) ** 3 - (xe[i + 1] - xe[i]) ** 3) for i in range(d)])
            worst = max(worst, float(np.max(np.abs(v - rhs))))
        c.check(self.api, 'reproduces_fpu_right_hand_side', worst <= 1e-10, ['d=%d' % d if d <= 3 else 'd>3'], {'d': d, 'worst': worst}, prop=P)
        c.sig(self.api, d)

    def m_kuramoto_coefficients(self, c, t, a, kw):
        d, w = a[0], np.asarray(a[1], dtype=float)
        if d > 40:
            return
        Xi = dense_cores(t.cores).reshape(d + 1, d + 1, d)
        rng = np.random.default_rng(d)
        worst = 0.0
        for _ in range(20):
            th = rng.uniform(-np.pi, np.pi, size=d)
            p1 = np.concatenate([[1.0], np.sin(th)])
            p2 = np.concatenate([[1.0], np.cos(th)])
            v = np.einsum('a,b,abi->i', p1, p2, Xi)
            rhs = w + (2.0 / d) * np.array([np.sum(np.sin(th - th[i])) for i in range(d)]) + 0.2 * np.sin(th)
            worst = max(worst, float(np.max(np.abs(v - rhs))))
        c.check(self.api, 'reproduces_kuramoto_right_hand_side', worst <= 1e-10, ['d=%d' % d if d <= 3 else 'd>3'], {'d': d, 'worst': worst}, prop=P)
        c.sig(self.api, d)

    # ---- fractals
    def _kron_power(self, c, res, gen, level, tags):
        D = gen.ndim
        shape = [3 ** level] * D
        ok = isinstance(res, np.ndarray) and list(res.shape) == shape
        if ok:
            want = np.ones(shape, dtype=int)
            for idx in np.ndindex(*shape):
                v = 1
                for l in range(level):
                    digits = tuple((i // 3 ** (level - 1 - l)) % 3 for i in idx)
                    v *= gen[digits]
                    if not v:
                        break
                want[idx] = v
            ok = bool(np.array_equal(res, want))
        c.check(self.api, 'equals_kronecker_power_of_generator', ok, tags, {'shape': list(getattr(res, 'shape', []))}, prop=P)

    def m_cantor_dust(self, c, res, a, kw):
        D, L = a[0], a[1]
        if 3 ** (D * L) > 6000:
            return
        gen = np.zeros([3] * D, dtype=int)
        for idx in np.ndindex(*gen.shape):
            gen[idx] = int(all(i != 1 for i in idx))
        self._kron_power(c, res, gen, L, ['dim=%d' % D, 'level=%d' % L])
        c.sig(self.api, D, L)

    def m_multisponge(self, c, res, a, kw):
        D, L = a[0], a[1]
        if 3 ** (D * L) > 6000:
            return
        gen = np.zeros([3] * D, dtype=int)
        for idx in np.ndindex(*gen.shape):
            gen[idx] = int(sum(1 for i in idx if i == 1) <= 1)
        self._kron_power(c, res, gen, L, ['dim=%d' % D, 'level=%d' % L])
        c.sig(self.api, D, L)

    def m_vicsek_fractal(self, c, res, a, kw):
        D, L = a[0], a[1]
        if 3 ** (D * L) > 6000:
            return
        gen = np.zeros([3] * D, dtype=int)
        for idx in np.ndindex(*gen.shape):
            gen[idx] = int(sum(1 for i in idx if i != 1) <= 1)
        self._kron_power(c, res, gen, L, ['dim=%d' % D, 'level=%d' % L])
        c.sig(self.api, D, L)

    def m_rgb_fractal(self, c, res, a, kw):
        R, G, B, L = a[0], a[1], a[2], a[3]
        n = R.shape[0]
        if n ** (2 * L) > 20000:
            return
        ok = isinstance(res, np.ndarray) and res.shape == (n ** L, n ** L, 3)
        if ok:
            for ch, M in enumerate((R, G, B)):
                K = np.ones((1, 1))
                for _ in range(L):
                    K = np.kron(K, M)
                K = np.asarray(K, dtype=float)  # (primaries of any real dtype: the statement is about their values)
                ok = ok and bool(np.allclose(res[:, :, ch], K, rtol=1e-13, atol=1e-13 * max(float(np.max(np.abs(K))), 1e-300)))
        c.check(self.api, 'channels_are_kronecker_powers', ok, ['n=%d' % n, 'level=%d' % L], prop=P)
        c.sig(self.api, n, L)

    def m_simon(self, c, t, a, kw):
        v = dense_cores(t.cores).reshape(-1)
        c.check(self.api, 'unit_norm_state', abs(np.linalg.norm(v) - 1) <= 1e-12, [], {'norm': float(np.linalg.norm(v))}, prop=P)


NAMES = ['co_oxidation', 'signaling_cascade', 'toll_station', 'two_step_destruction', 'qft', 'iqft', 'qfa', 'qfan', 'shor', 'exciton_chain', 'ising',
         'fpu_coefficients', 'kuramoto_coefficients', 'cantor_dust', 'multisponge', 'vicsek_fractal', 'rgb_fractal', 'simon']


def install():
    global mdl
    mdl = importlib.import_module('scikit_tt.models')
    if getattr(mdl, '__vt_armed__', False):
        return mdl
    for n in NAMES:
        probe.install(mdl, n, Model(n))
    mdl.__vt_armed__ = True
    return mdl
