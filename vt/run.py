"""Orchestrator of one check: shards over processes with watchdogs, merges what the monitors observed,
classifies violations against the committed known-findings file, writes evidence and replay files.

Verdicts are three-valued: held (exit 0), violated (exit 1, `VIOLATION property=<id> replay=<path>`),
inconclusive (exit 2: a deciding monitor was never evaluated, a shard hit the watchdog or crashed,
the oracle itself failed)."""
import argparse
import concurrent.futures
import json
import os
import shutil
import subprocess
import sys
import tempfile
import time

HERE = os.path.dirname(os.path.dirname(os.path.abspath(__file__)))
PY = os.environ.get('VERIF_PYTHON', '/venv/bin/python')
DEPS = os.path.join(HERE, '.deps')
WHEELS = '/opt/veriftools/wheels'


def ensure_deps(verbose=False):
    """icontract/deal beside the repository's interpreter (offline wheelhouse); absence is tolerated (the
    harness' own invariant layer is then the only M3 implementation and evidence says so)"""
    if os.path.isdir(os.path.join(DEPS, 'icontract')):
        return True
    try:
        os.makedirs(DEPS, exist_ok=True)
        r = subprocess.run([PY, '-m', 'pip', 'install', '--quiet', '--no-index', '--find-links', WHEELS, '--target', DEPS,
                            'icontract', 'deal'], capture_output=True, text=True, timeout=300)
        if r.returncode != 0 and verbose:
            print(r.stdout[-2000:], r.stderr[-2000:])
        return os.path.isdir(os.path.join(DEPS, 'icontract'))
    except Exception as e:
        if verbose:
            print('ensure_deps failed: %r' % (e,))
        return False


def shard_env():
    env = dict(os.environ)
    env['PYTHONPATH'] = HERE + os.pathsep + DEPS
    env['PYTHONHASHSEED'] = '0'
    env['PYTHONDONTWRITEBYTECODE'] = '1'
    env['SCIKIT_TT_VERIF'] = '1'
    for k in ('OMP_NUM_THREADS', 'OPENBLAS_NUM_THREADS', 'MKL_NUM_THREADS', 'NUMEXPR_NUM_THREADS'):
        env[k] = '1'
    env.pop('PYTHONSTARTUP', None)
    return env


def run_shard(prop, tier, seed, shard, nshards, repo, outdir, timeout, only=None):
    out = os.path.join(outdir, 'shard_%d.json' % shard)
    cmd = [PY, '-m', 'vt.shard', '--prop', prop, '--tier', tier, '--seed', str(seed), '--shard', str(shard),
           '--nshards', str(nshards), '--out', out, '--repo', repo]
    if only:
        cmd += ['--only', only]
    t0 = time.time()
    try:
        r = subprocess.run(cmd, cwd=HERE, env=shard_env(), capture_output=True, text=True, timeout=timeout)
    except subprocess.TimeoutExpired:
        return {'shard': shard, 'status': 'timeout', 'wall_s': time.time() - t0}
    if r.returncode != 0 or not os.path.exists(out):
        return {'shard': shard, 'status': 'crash', 'rc': r.returncode, 'stderr': r.stderr[-3000:], 'stdout': r.stdout[-1000:],
                'wall_s': time.time() - t0}
    with open(out) as f:
        res = json.load(f)
    res['status'] = 'ok'
    return res


def load_known():
    p = os.path.join(HERE, 'known_findings.json')
    if not os.path.exists(p):
        return {'findings': [], 'fixed': []}
    with open(p) as f:
        return json.load(f)


def match_known(v, findings):
    for k in findings:
        if k['property'] != v['property'] or k['api'] != v['api'] or k['check'] != v['check']:
            continue
        if all(t in v['tags'] for t in k.get('tags', [])):
            return k
    return None


def merge(results):
    m = {'cases': 0, 'checks': {}, 'sigs': set(), 'skipped': {}, 'lapack': {}, 'events': {}, 'reached': {}, 'samples': [],
         'violations': {}, 'workloads': {}, 'required': set(), 'failpoint_hits': 0, 'timing': {}}
    for r in results:
        if r.get('status') != 'ok':
            continue
        m['cases'] += r['cases']
        for key in ('checks', 'skipped', 'lapack', 'events', 'reached', 'workloads', 'timing'):
            for k, v in r[key].items():
                m[key][k] = m[key].get(k, 0) + v
        m['sigs'].update(r['sigs'])
        m['failpoint_hits'] += r.get('failpoint_hits', 0)
        for s in r['samples']:
            if isinstance(s, dict) and 'monitor_error' in s:
                m['samples'].insert(0, s)
            elif len(m['samples']) < 8:
                m['samples'].append(s)
        for v in r['violations']:
            key = json.dumps([v['property'], v['api'], v['check'], v['tags']])
            if key not in m['violations']:
                m['violations'][key] = dict(v, witnesses=list(v['witnesses']))
            else:
                m['violations'][key]['count'] += v['count']
                m['violations'][key]['witnesses'] = (m['violations'][key]['witnesses'] + v['witnesses'])[:3]
        m['required'].update(r.get('required', []))
    return m


def main(argv=None):
    ap = argparse.ArgumentParser(prog='check')
    ap.add_argument('prop')
    ap.add_argument('--tier', default=os.environ.get('VERIF_TIER', 'quick'), choices=['quick', 'thorough'])
    ap.add_argument('--seed', type=int, default=int(os.environ.get('VERIF_SEED', '0') or 0))
    ap.add_argument('--repo', default=os.environ.get('VERIF_REPO', '/repo'))
    ap.add_argument('--replay', default=None)
    ap.add_argument('--shards', type=int, default=0)
    ap.add_argument('--no-evidence', action='store_true')
    a = ap.parse_args(argv)
    prop = a.prop.upper()
    t0 = time.time()
    have_ic = ensure_deps()
    ncpu = os.cpu_count() or 4
    nshards = a.shards or (min(8, ncpu) if a.tier == 'quick' else min(16, ncpu))
    timeout = float(os.environ.get('VERIF_SHARD_TIMEOUT', '900' if a.tier == 'quick' else '5400'))
    outdir = tempfile.mkdtemp(prefix='vt_%s_' % prop, dir=os.environ.get('VERIF_SCRATCH') or None)
    try:
        if a.replay:
            with open(a.replay) as f:
                rp = json.load(f)
            w = rp['witnesses'][0]
            case = w['case']
            only = '%s:%d' % (case['workload'], case['idx'])
            results = [run_shard(prop, w.get('tier', a.tier), w.get('seed', a.seed), w.get('shard', 0), w.get('nshards', 1), a.repo, outdir, timeout, only=only)]  # (the shard number selects the process history, see props/_primer.py)
            a.no_evidence = True
            a.tier = w.get('tier', a.tier)
        else:
            with concurrent.futures.ThreadPoolExecutor(max_workers=nshards) as ex:
                futs = [ex.submit(run_shard, prop, a.tier, a.seed, i, nshards, a.repo, outdir, timeout) for i in range(nshards)]
                results = [f.result() for f in futs]
    finally:
        shutil.rmtree(outdir, ignore_errors=True)

    m = merge(results)
    bad_shards = [r for r in results if r.get('status') != 'ok']
    known = load_known()
    own, other, known_seen = [], [], []
    for v in m['violations'].values():
        if v['property'] != prop:
            other.append(v)
            continue
        k = match_known(v, known.get('findings', []))
        if k is not None:
            known_seen.append((k, v))
        else:
            own.append(v)

    # ---- inconclusive?
    reasons = []
    for r in bad_shards:
        reasons.append('shard %s %s' % (r.get('shard'), r.get('status')))
    if m['events'].get('monitor_error', 0):
        reasons.append('oracle errors: %d' % m['events']['monitor_error'])
    if not a.replay:
        for req in sorted(m['required']):
            if m['checks'].get(req, 0) == 0:
                reasons.append('deciding monitor never evaluated: ' + req)
        if m['cases'] == 0:
            reasons.append('no case was driven')
        if m['events'].get('case_timeout', 0):
            reasons.append('cases stopped by the per-case watchdog (undecided): %d' % m['events']['case_timeout'])
        # a monitored call that mostly *refuses* (LinAlgError-type give-ups are accepted case by case) has not been decided: on the
        # unchanged tree such refusals are rare (0-1 per run); a run in which they outnumber a tenth of the completed calls of that
        # function (and are more than 5) is inconclusive, never 'held'
        refused = {}
        for k, n in m['events'].items():
            if k.startswith('refused:') and 'NotImplementedError' not in k and not k.startswith('refused:ode.tdvp:IndexError'):
                api = k.split(':')[1]
                refused[api] = refused.get(api, 0) + n
        for api, n in sorted(refused.items()):
            done = sum(v for kk, v in m['checks'].items() if kk.endswith('|' + api + ':exception'))
            if n > 5 and n > 0.1 * done:
                reasons.append('monitored call mostly refused: %s refused %d times, completed %d times' % (api, n, done))

    # ---- output
    replay_dir = os.path.join(HERE, 'replays', prop)
    lines = []
    for i, v in enumerate(own):
        os.makedirs(replay_dir, exist_ok=True)
        p = os.path.join(replay_dir, 'violation_%s_%d.json' % (a.tier, i))
        with open(p, 'w') as f:
            json.dump(v, f, indent=1)
        lines.append('VIOLATION property=%s replay=%s' % (prop, p))
        print('  -> %s %s tags=%s count=%d' % (v['api'], v['check'], ','.join(v['tags']), v['count']))
        if v['witnesses']:
            print('     witness: %s' % json.dumps(v['witnesses'][0])[:600])
    if os.environ.get('VERIF_DEBUG_OTHER'):
        os.makedirs(replay_dir, exist_ok=True)
        for i, v in enumerate(other):
            with open(os.path.join(replay_dir, 'other_%d.json' % i), 'w') as f:
                json.dump(v, f, indent=1)
    printed = set()
    for k, v in known_seen:
        kid = json.dumps([k['property'], k['api'], k['check'], k.get('tags', [])])
        if kid in printed:
            continue
        printed.add(kid)
        print('KNOWN-FINDING: property=%s %s' % (prop, k.get('what', k['api'] + ' ' + k['check'])))
    for line in lines:
        print(line)

    wall = time.time() - t0
    total_mon = sum(v for k, v in m['checks'].items())
    own_mon = {k.split('|', 1)[1]: v for k, v in m['checks'].items() if k.startswith(prop + '|')}
    summary = '%s tier=%s seed=%d: cases=%d distinct=%d monitor_evaluations=%d (own %d) violations=%d known=%d wall=%.1fs' % (
        prop, a.tier, a.seed, m['cases'], len(m['sigs']), total_mon, sum(own_mon.values()), len(own), len(printed), wall)
    print(summary)
    if other:
        print('  (observed %d violation classes of other properties during this run; they are decided by their own checks: %s)' % (
            len(other), ', '.join(sorted(set(v['property'] + ':' + v['api'] + ':' + v['check'] for v in other)))[:400]))

    if not a.no_evidence:
        write_evidence(prop, a, m, own, other, known_seen, reasons, wall, have_ic, nshards, own_mon)

    for r in bad_shards:
        print('  shard %s: %s %s' % (r.get('shard'), r.get('status'), (r.get('stderr') or '')[-800:]))
    for s in m['samples']:
        if isinstance(s, dict) and 'monitor_error' in s:
            print('  oracle error: %s\n%s' % (s['monitor_error'], s['traceback']))
    if own:
        return 1
    if reasons:
        print('INCONCLUSIVE property=%s reason=%s' % (prop, '; '.join(reasons)[:1000]))
        return 2
    return 0


def write_evidence(prop, a, m, own, other, known_seen, reasons, wall, have_ic, nshards, own_mon):
    samples = [s for s in m['samples'] if not (isinstance(s, dict) and 'monitor_error' in s)][:6]
    if not samples:
        samples = [json.loads(s) for s in sorted(m['sigs'])[:3]]
    ev = {
        'property_id': prop, 'tier': a.tier, 'seed': a.seed, 'level': 'exploration',
        'coverage': {
            'evaluations': m['cases'],
            'distinct_nontrivial': len(m['sigs']),
            'rule': RULES.get(prop, DEFAULT_RULE),
            'samples': samples,
            'monitor_evaluations': own_mon,
            'monitor_evaluations_other_properties': {k: v for k, v in m['checks'].items() if not k.startswith(prop + '|')},
            'workload_cases': m['workloads'],
            'workload_cpu_s': {k: round(v, 2) for k, v in m['timing'].items()},
            'lapack_boundary': m['lapack'],
            'skipped': m['skipped'],
            'events': {k: v for k, v in m['events'].items()},
            'library_functions_entered': dict(sorted(m['reached'].items(), key=lambda kv: -kv[1])[:80]),
            'failpoint_hits': m['failpoint_hits'],
            'shards': nshards,
            'known_findings_observed': [{'api': k['api'], 'check': k['check'], 'tags': k.get('tags', []), 'count': v['count']} for k, v in known_seen],
            'other_property_observations': [{'property': v['property'], 'api': v['api'], 'check': v['check'], 'tags': v['tags'], 'count': v['count']} for v in other],
            'verdict': 'violated' if own else ('inconclusive' if reasons else 'held on what was observed'),
            'inconclusive_reasons': reasons,
            'exhaustive': False,
        },
        'assumptions': ASSUMPTIONS + (['icontract available: class invariant installed through icontract.invariant'] if have_ic else
                                      ['icontract NOT available in this run: M3 evaluated only by the harness own return-value invariant']),
        'wall_s': round(wall, 2),
        'violations': len(own),
    }
    os.makedirs(os.path.join(HERE, 'evidence'), exist_ok=True)
    with open(os.path.join(HERE, 'evidence', prop + '.json'), 'w') as f:
        json.dump(ev, f, indent=1, sort_keys=True)


DEFAULT_RULE = ('cases are drawn from seeded generators / enumerations per workload (see DESIGN.md section 4); a case is counted as '
                'distinct and non-trivial once per distinct signature (operation, coarse shape class of every operand: order, set of '
                'mode sizes, size-1 mode present, rank-1 bond present, maximal rank, over-parameterised, complex, operator/vector; option values) '
                'for which at least one deciding monitor was evaluated on a real library result')
RULES = {}
ASSUMPTIONS = ['NumPy/SciPy (numpy.linalg, scipy.linalg.expm/eigh) are the trusted reference for dense linear algebra',
               'the dense reference model contracts cores in the documented (r,m,n,r) layout with tensordot, independently of TT.full/matricize/element',
               'floating-point comparisons use relative tolerances (1e-9 unless conditioning of the sub-problem is measured and larger)',
               'verdict is about the executions produced by this run only (runtime monitoring), not a proof']

if __name__ == '__main__':
    sys.exit(main())
