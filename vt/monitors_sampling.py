"""C20: contract on quantum_computation.sampling.  A probe on numpy.random.rand captures the uniform variates the
sampler actually drew; the oracle replays sequential inverse-CDF sampling on the dense Born marginal with those
variates and predicts (samples, frequencies) exactly; a chi-square distance to the exact marginal is a secondary check."""
import importlib

import numpy as np

from . import core, probe
from .contracts_api import ApiImmut
from .dense import dense_cores, tt_consistent
from .monitors_transform import parse

P = 'C20'
DRAWN = []
_orig_rand = None


def install_rand_probe():
    global _orig_rand
    if _orig_rand is not None:
        return
    _orig_rand = np.random.rand

    def rand(*shape):
        out = _orig_rand(*shape)
        if not probe.S.busy and probe.S.armed:
            DRAWN.append(np.array(out, copy=True))
        return out
    np.random.rand = rand


class Sampling(ApiImmut):
    freeze = True  # the oracle sees the arguments as they were at call entry; arrays / lists rewritten by the call are reported
    input_prop = P
    def __init__(self):
        ApiImmut.__init__(self, 'quantum_computation.sampling')

    def pre(self, args, kwargs):
        st = ApiImmut.pre(self, args, kwargs)
        del DRAWN[:]
        return st

    def post(self, st, res, args, kwargs):
        ApiImmut.post(self, st, res, args, kwargs)
        c = core.ctx()
        v = parse(['quantum_state', 'measure_list', 'number_of_samples', 'plot_tf'], {'plot_tf': False}, args, kwargs)
        psi_t, ml, N = v['quantum_state'], [int(i) for i in v['measure_list']], int(v['number_of_samples'])
        n = psi_t.order
        if not tt_consistent(psi_t)[0]:
            return
        if n > 12:
            self.post_large(c, psi_t, ml, N, res)
            return
        try:
            samples, freqs = res
        except Exception:
            c.check(self.api, 'returns_pair', False, prop=P)
            return
        samples, freqs = np.asarray(samples), np.asarray(freqs, dtype=float)
        k = len(ml)
        sites = sorted(ml)
        pos = 'all' if k == n else '+'.join(sorted(set(('leading' if i < sites[0] else 'trailing' if i > sites[-1] else 'inner') for i in range(n) if i not in sites)))
        tags = ['unmeasured=' + pos, 'ranks>1' if max(psi_t.ranks) > 1 else 'product_state']
        psi = dense_cores(psi_t.cores).reshape([2] * n)
        # preconditions (measured): normalised and right-orthonormal
        gauge = all(float(np.max(np.abs(cr.reshape(cr.shape[0], -1) @ cr.reshape(cr.shape[0], -1).conj().T - np.eye(cr.shape[0])))) <= 1e-10 for cr in psi_t.cores[1:])
        if abs(np.linalg.norm(psi.reshape(-1)) - 1) > 1e-10 or not gauge:
            c.skip('sampling_state_not_normalised_right_orthonormal')
            return
        prob = np.abs(psi) ** 2
        marg = prob.sum(axis=tuple(i for i in range(n) if i not in sites)) if k < n else prob
        ok_shape = samples.ndim == 2 and samples.shape[1] == k and len(freqs) == samples.shape[0]
        c.check(self.api, 'result_shapes', ok_shape, tags, {'samples': list(samples.shape), 'freqs': list(freqs.shape)}, prop=P)
        if not ok_shape:
            return
        c.check(self.api, 'frequencies_sum_to_one', abs(float(np.sum(freqs)) - 1.0) <= 1e-12, tags, {'sum': float(np.sum(freqs))}, prop=P)
        c.check(self.api, 'bit_strings_distinct', len({tuple(r) for r in samples.tolist()}) == samples.shape[0], tags, prop=P)
        c.check(self.api, 'entries_are_bits', bool(np.all((samples == 0) | (samples == 1))), tags, prop=P)
        # exact prediction from the captured variates
        U = [d for d in DRAWN if d.shape == (N, k)]
        if len(U) != 1:
            c.skip('sampling_variates_not_captured')
        else:
            U = U[0]
            pred = np.zeros((N, k))
            tie = False
            for s in range(N):
                idx = ()
                for i in range(k):
                    sub = marg[idx]  # remaining axes
                    p0 = float(np.sum(sub[0])) if sub.ndim > 1 else float(sub[0])
                    p1 = float(np.sum(sub[1])) if sub.ndim > 1 else float(sub[1])
                    tot = p0 + p1
                    if tot <= 0:
                        tie = True
                        break
                    q = p0 / tot
                    if abs(U[s, i] - q) < 1e-9:
                        tie = True
                    bit = 1 if U[s, i] > q else 0
                    pred[s, i] = bit
                    idx = idx + (bit,)
                if tie:
                    break
            if tie:
                c.skip('sampling_variate_at_decision_boundary')
            else:
                ws, wc = np.unique(pred, return_counts=True, axis=0)
                good = ws.shape == samples.shape and np.array_equal(ws, samples) and np.allclose(wc / N, freqs, rtol=0, atol=1e-12)
                c.check(self.api, 'equals_inverse_cdf_sampling_of_born_marginal', bool(good), tags, {'n': n, 'measured': sites, 'N': N, 'got': samples[:8], 'want': ws[:8], 'got_f': freqs[:8], 'want_f': (wc / N)[:8]}, prop=P)
        # chi-square distance to the exact marginal
        if N >= 5000:
            from scipy import stats
            flat = marg.reshape(-1)
            counts = np.zeros(flat.shape)
            for row, f in zip(samples.astype(int), freqs):
                counts[int(''.join(str(b) for b in row), 2) if k > 0 else 0] = f * N
            support = flat > 1e-9
            bad_zero = bool(np.any(counts[~support] > 0)) and float(np.sum(flat[~support])) * N < 1e-3
            df = int(np.sum(support)) - 1
            if df >= 1:
                chi2 = float(np.sum((counts[support] - N * flat[support]) ** 2 / (N * flat[support])))
                with probe.oracle():
                    lim = float(stats.chi2.isf(1e-12, df))
                c.check(self.api, 'frequencies_converge_to_born_marginal', chi2 <= lim and not bad_zero, tags, {'chi2': chi2, 'limit': lim, 'df': df, 'N': N}, prop=P)
        c.sig(self.api, n, tuple(sites), pos, max(psi_t.ranks), 'N>=5000' if N >= 5000 else 'N<5000')


def _large_register(self, c, psi_t, ml, N, res):
    """registers too large for a dense state vector: the conditional Born probabilities are obtained from the cores by an own
    transfer-matrix contraction (left environment of the fixed prefix, right environments with all remaining sites traced out),
    O(N n r^4); the prediction from the captured uniform variates must again be met exactly"""
    n = psi_t.order
    k = len(ml)
    sites = sorted(ml)
    cores = [np.asarray(cr)[:, :, 0, :] for cr in psi_t.cores]  # (r, 2, r')
    if max(cr.shape[0] for cr in cores) > 4:
        return
    try:
        samples, freqs = res
    except Exception:
        c.check(self.api, 'returns_pair', False, prop=P)
        return
    samples, freqs = np.asarray(samples), np.asarray(freqs, dtype=float)
    tags = ['large_register', 'measured>53' if k > 53 else 'measured<=53', 'ranks>1' if max(psi_t.ranks) > 1 else 'product_state']
    ok_shape = samples.ndim == 2 and samples.shape[1] == k and len(freqs) == samples.shape[0]
    c.check(self.api, 'result_shapes', ok_shape, tags, {'samples': list(samples.shape), 'freqs': list(freqs.shape)}, prop=P)
    if not ok_shape:
        return
    c.check(self.api, 'frequencies_sum_to_one', abs(float(np.sum(freqs)) - 1.0) <= 1e-12, tags, {'sum': float(np.sum(freqs))}, prop=P)
    c.check(self.api, 'bit_strings_distinct', len({tuple(r) for r in samples.tolist()}) == samples.shape[0], tags, prop=P)
    c.check(self.api, 'entries_are_bits', bool(np.all((samples == 0) | (samples == 1))), tags, prop=P)
    # right environments with everything traced out: R[i] for sites i..n-1
    R = [None] * (n + 1)
    R[n] = np.ones((1, 1), dtype=complex)
    for i in range(n - 1, -1, -1):
        A = cores[i]
        R[i] = sum(A[:, b, :] @ R[i + 1] @ A[:, b, :].conj().T for b in (0, 1))
    total = float(np.real(R[0][0, 0]))
    if abs(total - 1) > 1e-9:
        c.skip('sampling_state_not_normalised_right_orthonormal')
        return
    U = [d for d in DRAWN if d.shape == (N, k)]
    if len(U) != 1:
        c.skip('sampling_variates_not_captured')
        return
    U = U[0]
    pred = np.zeros((N, k))
    tie = False
    cache = {}
    for s_ in range(N):
        L = np.ones((1, 1), dtype=complex)  # left environment of the prefix fixed so far (unmeasured sites traced out)
        pos = 0
        key = ()
        for j, site in enumerate(sites):
            ck = key
            if ck in cache:
                L, pos, p0, p1 = cache[ck]
            else:
                for i in range(pos, site):  # trace out the unmeasured sites in between
                    A = cores[i]
                    L = sum(A[:, b, :].T @ L @ A[:, b, :].conj() for b in (0, 1))
                A = cores[site]
                cand = [A[:, b, :].T @ L @ A[:, b, :].conj() for b in (0, 1)]
                p0, p1 = [float(np.real(np.sum(cand[b] * R[site + 1].T))) for b in (0, 1)]
                cache[ck] = (L, site, p0, p1)
                pos = site
            tot = p0 + p1
            if tot <= 0:
                tie = True
                break
            q = p0 / tot
            if abs(U[s_, j] - q) < 1e-9:
                tie = True
                break
            bit = 1 if U[s_, j] > q else 0
            pred[s_, j] = bit
            A = cores[site]
            Lp = cache[ck][0]
            L = A[:, bit, :].T @ Lp @ A[:, bit, :].conj()
            mx = float(np.max(np.abs(L)))
            if 0 < mx < 1e-100:  # (only ratios enter the conditional probabilities: keep the environment of a long prefix away from underflow)
                L = L / mx
            pos = site + 1
            key = key + (bit,)
        if tie:
            break
    if tie:
        c.skip('sampling_variate_at_decision_boundary')
        return
    ws, wc = np.unique(pred, return_counts=True, axis=0)
    good = ws.shape == samples.shape and np.array_equal(ws, samples) and np.allclose(wc / N, freqs, rtol=0, atol=1e-12)
    c.check(self.api, 'equals_inverse_cdf_sampling_of_born_marginal', bool(good), tags, {'n': n, 'measured': len(sites), 'N': N, 'got_rows': int(samples.shape[0]), 'want_rows': int(ws.shape[0])}, prop=P)
    c.sig(self.api, 'large', n // 10, k > 53, max(psi_t.ranks))


Sampling.post_large = _large_register


def install():
    qc = importlib.import_module('scikit_tt.quantum_computation')
    if getattr(qc, '__vt_c20__', False):
        return qc
    install_rand_probe()
    probe.install(qc, 'sampling', Sampling())
    qc.__vt_c20__ = True
    return qc
