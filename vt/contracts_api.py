"""Generic M4/M3 contract for public functions of the solver / integrator / data-driven modules: every TT argument
(also inside lists) and every ndarray argument must be bitwise unchanged after the call (also when it raises), every TT
found in the return value must satisfy the representation invariant.  Property C06 (and the 'inputs unchanged'
clauses of C07/C09/C11/C16/C17)."""
import copy
import inspect
import types

import numpy as np

from . import core, probe
from .contracts_tt import _find_tts, check_returned
from .dense import Snap, tt_consistent, shape_sig_cores, MAX_DENSE, dense_size


def _is_plain(v, depth=0):
    """lists/tuples (nested) of Python/NumPy scalars, None, strings: option values such as rank lists, step-size lists, index lists"""
    if v is None or isinstance(v, (bool, int, float, complex, str, np.generic)):
        return True
    if isinstance(v, (list, tuple)) and depth < 4 and len(v) <= 4096:
        return all(_is_plain(w, depth + 1) for w in v)
    return False


def snapshot_plain(args, kwargs):
    out = []
    for key, v in list(enumerate(args)) + list(kwargs.items()):
        if isinstance(v, list) and _is_plain(v):
            out.append((key, v, copy.deepcopy(v)))
    return out


def check_plain(api, plain, raised=False, prop=None):
    """a list-valued option (requested ranks, step sizes, index sets ...) is the caller's: the call must not rewrite it.  Reported
    under the property being checked: what the caller 'requested' in a later call with the same list is otherwise not what they wrote."""
    c = core.ctx()
    for (key, v, before) in plain or []:
        try:
            same = _plain_equal(v, before)
        except Exception:
            same = False
        c.check(api, 'list_argument_unchanged', same, ['arg=%s' % key] + (['raised'] if raised and not same else []),
                {'before': before, 'after': v} if not same else None, prop=prop)


def _plain_equal(a, b):
    if isinstance(a, (list, tuple)) or isinstance(b, (list, tuple)):
        return type(a) is type(b) and len(a) == len(b) and all(_plain_equal(x, y) for x, y in zip(a, b))
    if isinstance(a, float) and isinstance(b, float) and a != a and b != b:
        return True
    return type(a) is type(b) and a == b


# properties whose own statement contains an "inputs are not modified" clause for these routines: a changed tensor-train argument
# is reported under that property as well (and always under C06)
OWN_IMMUT = {'TT.svd': 'C05', 'TT.pinv': 'C05', 'ode.adaptive_step_size': 'C09', 'ode.tdvp1site': 'C11', 'ode.tdvp2site': 'C11', 'ode.tdvp': 'C11',
             'ode.krylov': 'C11', 'regression.arr': 'C16', 'tdmd.tdmd_exact': 'C17', 'tdmd.tdmd_standard': 'C17'}


class ApiImmut(probe.Contract):
    def __init__(self, api, prop='C06'):
        self.api = api
        self.prop = prop

    def pre(self, args, kwargs):
        allv = list(args) + list(kwargs.values())
        tts = _find_tts(allv, [])
        snaps, seen = [], set()
        for t in tts:
            if id(t) in seen:
                continue
            seen.add(id(t))
            if tt_consistent(t)[0] and dense_size(t.cores) <= 8 * MAX_DENSE:
                snaps.append(Snap(t))
                if probe.S.depth == 0:
                    probe.register_live(t, self.api + ':arg')
        arrs = []
        for v in allv:
            if isinstance(v, np.ndarray) and v.size <= 8 * MAX_DENSE:
                arrs.append((v, v.copy()))
            elif isinstance(v, (list, tuple)):
                for w in v:
                    if isinstance(w, np.ndarray) and w.size <= 8 * MAX_DENSE:
                        arrs.append((w, w.copy()))
        return {'snaps': snaps, 'arrs': arrs, 'plain': snapshot_plain(args, kwargs)}

    def _immut(self, st, raised=False):
        c = core.ctx()
        for s in st['snaps']:
            bit, d = s.semantic_diff()
            if bit is not None and d is None:
                c.events['argument_gauge_changed_only:' + self.api] += 1
            tags = []
            if d is not None:
                sg = shape_sig_cores(s.cores)
                tags = ['rank1bond'] if sg['rank1bond'] else []
                tags += ['size1mode'] if sg['size1mode'] else []
                tags += ['raised'] if raised else []
            c.check(self.api, 'argument_unchanged', d is None, tags, {'diff': d, 'shape': s.shape_sig(), 'ranks': s.ranks} if d else None, prop='C06')
            if self.api in OWN_IMMUT:
                c.check(self.api, 'input_tensor_trains_unchanged', d is None, tags, {'diff': d, 'shape': s.shape_sig(), 'ranks': s.ranks} if d else None, prop=OWN_IMMUT[self.api])
        for (v, before) in st['arrs']:
            same = v.shape == before.shape and np.array_equal(v, before, equal_nan=True)
            c.check(self.api, 'ndarray_argument_unchanged', same, ['raised'] if raised and not same else [], None, prop='C06')
        check_plain(self.api, st.get('plain'), raised)

    def exc(self, st, e, args, kwargs):
        if st is not None:
            self._immut(st, raised=True)

    def post(self, st, res, args, kwargs):
        if st is None:
            return
        self._immut(st)
        check_returned(self.api, res)


def install_module(mod, short, names=None, skip=()):
    """wrap every public function defined in module `mod`"""
    done = []
    for name, obj in list(vars(mod).items()):
        if name.startswith('_') or name in skip:
            continue
        if names is not None and name not in names:
            continue
        if isinstance(obj, types.FunctionType) and obj.__module__ == mod.__name__ and not getattr(obj, '__vt_wrapped__', False):
            probe.install(mod, name, ApiImmut(short + '.' + name), replace_everywhere=True)
            done.append(name)
    return done
