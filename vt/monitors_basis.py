"""C14: icontract postconditions (record-and-return) on partial / partial2 / gradient / hessian / __call__ of every
basis-function class: the returned derivative must equal the derivative of the object's own evaluation (complex-step
differentiation; central differences where the evaluation is not analytic, i.e. B-splines)."""
import collections
import copy
import importlib

import numpy as np

from . import core, probe

P = 'C14'
H_CS = 1e-30


class PostBroken(Exception):
    pass


def _family(obj):
    return type(obj).__name__


def _analytic(obj):
    return _family(obj) not in ('Bspline', 'IndicatorFunction')


# The oracle evaluates the function through the object's own methods; it does so on a deep copy taken at the start of every
# postcondition, so that reference evaluations neither depend on nor disturb whatever the live object remembers between calls.
SUBJECT = {'obj': None, 'clone': None}


def _clone_of(obj):
    if SUBJECT['obj'] is obj and SUBJECT['clone'] is not None:
        return SUBJECT['clone']
    return obj


def _eval(obj, t):
    obj = _clone_of(obj)
    return type(obj).__call__.__vt_plain__(obj, t) if hasattr(type(obj).__call__, '__vt_plain__') else obj(t)


def d1(obj, t, k):
    """reference first derivative of obj.__call__ w.r.t. coordinate k"""
    t = np.asarray(t)
    if _analytic(obj):
        tc = t.astype(complex)
        tc[k] = tc[k] + 1j * H_CS
        return np.imag(_eval(obj, tc)) / H_CS, 1e-9
    h = 1e-6
    tp, tm = t.astype(float).copy(), t.astype(float).copy()
    tp[k] += h
    tm[k] -= h
    return (np.asarray(_eval(obj, tp), dtype=float) - np.asarray(_eval(obj, tm), dtype=float)) / (2 * h), 1e-5


def d2_from_partial(obj, t, k1, k2):
    """complex step of the object's own first derivative"""
    t = np.asarray(t)
    tc = t.astype(complex)
    tc[k2] = tc[k2] + 1j * H_CS
    obj = _clone_of(obj)
    plain = type(obj).partial
    plain = getattr(plain, '__vt_plain__', plain)
    return np.imag(plain(obj, tc, k1)) / H_CS


def d2_fd(obj, t, k, h=1e-4):
    t = np.asarray(t, dtype=float)
    tp, tm = t.copy(), t.copy()
    tp[k] += h
    tm[k] -= h
    f0 = np.asarray(_eval(obj, t), dtype=float)
    return (np.asarray(_eval(obj, tp), dtype=float) - 2 * f0 + np.asarray(_eval(obj, tm), dtype=float)) / h ** 2


def _close(a, b, tol):
    a, b = np.asarray(a, dtype=float), np.asarray(b, dtype=float)
    try:
        a, b = np.broadcast_arrays(a, b)
    except ValueError:
        return False, None
    if not (np.all(np.isfinite(a)) and np.all(np.isfinite(b))):
        return False, None
    err = float(np.max(np.abs(a - b))) if a.size else 0.0
    sc = max(1.0, float(np.max(np.abs(b))) if b.size else 1.0)
    return err <= tol * sc, err


def _params(obj):
    return {k: (v if np.isscalar(v) else repr(v)[:60]) for k, v in vars(obj).items() if k not in ('bsp', 'bsp1', 't', 'initialized')}


# results handed out earlier (array, bitwise copy at hand-out time, label): a later call on the same or another function
# object must not change them (a caller collecting [f.gradient(x) for x in points] relies on that)
RETAINED = collections.deque(maxlen=12)


def forget(arr):
    """the caller is about to edit a result it was handed: its own array, no longer watched"""
    keep = [(a_, cp, label) for (a_, cp, label) in RETAINED if a_ is not arr]
    RETAINED.clear()
    RETAINED.extend(keep)


def _retain_and_check(fn, a):
    c = core.ctx()
    keep = []
    for (arr, cp, label) in RETAINED:
        same = arr.shape == cp.shape and np.array_equal(arr, cp, equal_nan=True)
        c.check(label, 'earlier_result_unchanged_by_later_calls', same, [], {'was': cp, 'now': arr, 'later_call': fn.__name__} if not same else None, prop=P)
        if same:
            keep.append((arr, cp, label))
    RETAINED.clear()
    RETAINED.extend(keep)
    result = a[-1]
    if isinstance(result, np.ndarray) and result.size <= 4096:
        RETAINED.append((result, result.copy(), 'transform.%s.%s' % (_family(a[0]), fn.__name__.replace('post_', ''))))


# workloads with hundreds of thousands of basis-function evaluations per library call (thousands of snapshots) let the
# per-evaluation monitors look at every STRIDE-th evaluation only
STRIDE = [1, 0]


def _guarded(fn):
    def wrapper(*a, **kw):
        if probe.S.busy or not probe.S.armed:
            return True
        if STRIDE[0] > 1:
            STRIDE[1] += 1
            if STRIDE[1] % STRIDE[0]:
                return True
        probe.S.busy += 1
        try:
            try:
                SUBJECT['obj'], SUBJECT['clone'] = a[0], copy.deepcopy(a[0])
            except Exception:
                SUBJECT['obj'], SUBJECT['clone'] = None, None
            fn(*a, **kw)
            if not kw:
                _retain_and_check(fn, a)
        except Exception:
            probe.monitor_error('transform.' + fn.__name__, 'post')
        finally:
            probe.S.busy -= 1
        return True
    wrapper.__name__ = fn.__name__
    return wrapper


def post_partial(self, t, direction, result):
    c = core.ctx()
    ref, tol = d1(self, t, direction)
    ok, err = _close(result, ref, tol)
    fam = _family(self)
    foreign = direction != getattr(self, 'index', direction)
    c.check('transform.%s.partial' % fam, 'equals_derivative_of_call', ok, ['family=' + fam, 'foreign_coordinate' if foreign else 'own_coordinate'],
            {'params': _params(self), 't': t, 'direction': direction, 'got': result, 'want': ref, 'err': err}, prop=P)
    c.sig('partial', fam, foreign, np.ndim(result) > 0)


def post_partial2(self, t, direction1, direction2, result):
    c = core.ctx()
    fam = _family(self)
    ref = d2_from_partial(self, t, direction1, direction2)
    ok, err = _close(result, ref, 1e-9)
    own = direction1 == getattr(self, 'index', direction1) and direction2 == getattr(self, 'index', direction2)
    tags = ['family=' + fam, 'own_coordinate' if own else 'foreign_coordinate']
    c.check('transform.%s.partial2' % fam, 'equals_derivative_of_partial', ok, tags, {'params': _params(self), 't': t, 'directions': [direction1, direction2], 'got': result, 'want': ref, 'err': err}, prop=P)
    if direction1 == direction2:
        ref2 = d2_fd(self, t, direction1)
        # the accuracy of the difference quotient itself (h^2 times the fourth derivative / 12, large for steep functions: Legendre
        # polynomials on a small domain, narrow Gaussians) is estimated from the quotient with the doubled step and enters the tolerance
        est = float(np.max(np.abs(np.asarray(d2_fd(self, t, direction1, h=2e-4), dtype=float) - np.asarray(ref2, dtype=float))))
        ok2, err2 = _close(result, ref2, 1e-4 * max(1.0, float(np.max(np.abs(ref2)))) + 2.0 * est)
        c.check('transform.%s.partial2' % fam, 'equals_second_difference_of_call', ok2, tags, {'params': _params(self), 't': t, 'got': result, 'want': ref2, 'err': err2}, prop=P)
    c.sig('partial2', fam, own)


def post_gradient(self, t, result):
    c = core.ctx()
    fam = _family(self)
    dim = self.dimension
    cols = []
    tol = 1e-9
    for k in range(dim):
        r, tol = d1(self, t, k)
        cols.append(r)
    ref = np.array(cols)
    ok, err = _close(result, ref, tol)
    c.check('transform.%s.gradient' % fam, 'equals_gradient_of_call', ok and np.shape(result)[0] == dim, ['family=' + fam], {'params': _params(self), 't': t, 'got': result, 'want': ref}, prop=P)
    c.sig('gradient', fam, dim)


def post_hessian(self, t, result):
    c = core.ctx()
    fam = _family(self)
    dim = self.dimension
    ref = np.zeros((dim, dim))
    for i in range(dim):
        for j in range(dim):
            ref[i, j] = d2_from_partial(self, t, i, j)
    ok, err = _close(result, ref, 1e-9)
    offd = float(np.max(np.abs(np.asarray(result) - np.diag(np.diag(np.asarray(result)))))) if dim > 1 and np.shape(result) == (dim, dim) else 0.0
    c.check('transform.%s.hessian' % fam, 'equals_hessian_of_call', ok and np.shape(result) == (dim, dim), ['family=' + fam], {'params': _params(self), 't': t, 'got': result, 'want': ref}, prop=P)
    c.check('transform.%s.hessian' % fam, 'symmetric', np.shape(result) == (dim, dim) and np.allclose(result, np.asarray(result).T, atol=1e-12), ['family=' + fam], prop=P)
    c.sig('hessian', fam, dim)


def post_call(self, t, result):
    c = core.ctx()
    fam = _family(self)
    tt_ = np.asarray(t)
    if tt_.ndim != 2 or np.iscomplexobj(tt_):
        return
    m = tt_.shape[1]
    pts = np.array([_eval(self, tt_[:, j]) for j in range(m)])
    ok = np.shape(result) == (m,) and bool(np.allclose(np.asarray(result, dtype=float), pts.astype(float), rtol=1e-12, atol=1e-12))
    c.check('transform.%s.__call__' % fam, 'array_evaluation_equals_pointwise', ok, ['family=' + fam], {'params': _params(self), 'shape': list(tt_.shape), 'got_shape': list(np.shape(result))}, prop=P)
    c.sig('call_array', fam, m)


POSTS = {'partial': post_partial, 'partial2': post_partial2, 'gradient': post_gradient, 'hessian': post_hessian, '__call__': post_call}


def install():
    tr = importlib.import_module('scikit_tt.data_driven.transform')
    if getattr(tr, '__vt_c14__', False):
        return tr
    try:
        import icontract
    except Exception:
        icontract = None
        core.ctx().events['icontract_unavailable'] += 1
    n = 0
    for name, cls in list(vars(tr).items()):
        if not (isinstance(cls, type) and issubclass(cls, tr.Function)):
            continue
        for meth, post in POSTS.items():
            if meth not in cls.__dict__:
                continue
            plain = cls.__dict__[meth]
            cond = _guarded(post)
            if icontract is not None:
                # icontract needs the condition's parameter names: build a named function with the same signature
                cond = _with_signature(post)
                wrapped = icontract.ensure(cond, error=PostBroken)(plain)
            else:
                wrapped = _fallback(plain, post)
            try:
                wrapped.__vt_plain__ = plain
            except Exception:
                pass
            setattr(cls, meth, wrapped)
            n += 1
    core.ctx().events['c14_postconditions_installed'] += n
    core.ctx().events['c14_via_icontract'] += int(icontract is not None)
    tr.__vt_c14__ = True
    return tr


def _with_signature(post):
    g = _guarded(post)
    name = post.__name__
    if name == 'post_partial':
        def cond(self, t, direction, result):
            return g(self, t, direction, result)
    elif name == 'post_partial2':
        def cond(self, t, direction1, direction2, result):
            return g(self, t, direction1, direction2, result)
    else:
        def cond(self, t, result):
            return g(self, t, result)
    cond.__name__ = name
    return cond


def _fallback(plain, post):
    import functools
    g = _guarded(post)

    @functools.wraps(plain)
    def w(self, *a, **kw):
        r = plain(self, *a, **kw)
        g(self, *a, r)
        return r
    return w
