"""C09 - one-step ODE schemes reproduce their defining recurrences.  Deciding monitors: contracts in vt.monitors_ode
(step-wise dense recurrence, list shape, unit norms, defect formulas, time-trace of the adaptive method) + M4."""
import math

import numpy as np

from .. import gen, probe, core, monitors_sle, monitors_ode
from ..dense import dense, mat
from ..drive import call
from ..shard import Workload
from ._common import arm_light

P = 'C09'
tt = None
ode = None


def setup(ctx):
    global tt, ode
    tt = arm_light(ctx)
    monitors_sle.install()
    ode = monitors_ode.install()


def dims_for(rng, dmax=3, cap=36):
    d = int(rng.integers(1, dmax + 1))
    dims = [int(rng.integers(1, 4)) for _ in range(d)]
    if all(x == 1 for x in dims):
        dims[int(rng.integers(0, d))] = 2
    while int(np.prod(dims)) > cap:
        dims[int(np.argmax(dims))] -= 1
    return dims


def general_operator(rng, dims, cplx, rmax=3):
    d = len(dims)
    with probe.oracle():
        A = gen.rand_tt(rng, dims, dims, gen.rand_ranks(rng, d, rmax), cplx)
        nrm = float(np.linalg.norm(mat(dense(A)), 2))
        return (1.0 / max(nrm, 1e-12)) * A


def markov_generator(rng, dims):
    n = int(np.prod(dims))
    Q = rng.random((n, n)) * (rng.random((n, n)) < 0.5)
    np.fill_diagonal(Q, 0.0)
    if not np.any(Q):  # the zero operator is inadmissible for the relative truncation thresholds used inside the schemes (0/0)
        Q[1 % n, 0] = 1.0
    Q = Q - np.diag(Q.sum(axis=0))
    Q = Q / max(np.max(np.abs(np.diag(Q))), 1e-12)
    with probe.oracle():
        return tt.TT(Q.reshape(list(dims) + list(dims)))


def prob_state(rng, dims, maximal=True):
    d = len(dims)
    x = rng.random(dims) + 0.1
    x = x / x.sum()
    with probe.oracle():
        return tt.TT(x.reshape(list(dims) + [1] * d))  # TT-SVD: maximal (numerical) ranks of a generic positive tensor


def max_state(rng, dims, cplx):
    d = len(dims)
    with probe.oracle():
        return gen.rand_tt(rng, dims, [1] * d, gen.max_ranks(dims, [1] * d), cplx)


def steps(rng):
    """step-size lists: constant, independent, and lists over a small palette (values recur: alternating, piecewise constant,
    returning to the first value after a different one) - per-step quantities cached across steps show only on the latter"""
    n = int(rng.integers(1, 7))
    k = int(rng.integers(0, 7))
    if k >= 5:
        # graded lists: every step differs from its predecessor by a small relative amount (geometric / arithmetic refinement towards
        # a boundary layer, a step-size controller settling down): consecutive values are nearly, but not exactly, equal
        n = int(rng.integers(3, 13))
        h0 = float(rng.uniform(0.05, 0.5))
        q = float(10 ** rng.uniform(-7, -2.5)) * (1 if rng.random() < 0.5 else -1)
        if k == 5:
            return [h0 * (1 + q) ** i for i in range(n)]
        return [h0 * (1 + q * i) for i in range(n)]
    if k == 0:
        return [float(rng.uniform(0.05, 0.5))] * n
    if k == 1:
        return [float(rng.uniform(0.05, 0.5)) for _ in range(n)]
    pal = [float(rng.uniform(0.05, 0.5)) for _ in range(2 if k < 4 else 3)]
    if k == 2:  # alternating a, b, a, b, ...
        return [pal[i % 2] for i in range(n)]
    if k == 3:  # piecewise constant, coming back to the first value at the end
        n = max(n, 3)
        cut = int(rng.integers(1, n - 1))
        return [pal[0]] * cut + [pal[1]] * (n - 1 - cut) + [pal[0]]
    return [pal[int(rng.integers(0, len(pal)))] for _ in range(n)]


def caller_edits_own_identity(rng, dims):
    """the caller builds an identity operator of the same mode sizes for its own purposes and edits its cores in place (scales them,
    writes a defect into one): its own object - the integrators' internal identities must not know"""
    if rng.random() < 0.2:
        with probe.oracle():
            E = tt.eye(list(dims))
            for c in E.cores:
                if rng.random() < 0.7:
                    c *= float(rng.uniform(0.3, 0.7))
            j = int(rng.integers(0, len(dims)))
            E.cores[j][0, 0, 0, 0] = -2.0
        core.ctx().events['caller_edited_an_identity_in_place'] += 1


def setting(rng):
    dims = dims_for(rng)
    caller_edits_own_identity(rng, dims)
    markov = rng.random() < 0.4
    if markov:
        A = markov_generator(rng, dims)
        x0 = prob_state(rng, dims)
        nz = int(rng.integers(0, 3))
        cplx = False
        if rng.random() < 0.6:
            # a non-negative initial state that is NOT normalised: Markov generators conserve the sum of the entries, so with a
            # normalised start "normalize=1" and "no normalisation" cannot be told apart
            with probe.oracle():
                x0 = float(rng.uniform(0.3, 3.0)) * x0
    else:
        cplx = bool(rng.integers(0, 2))
        A = general_operator(rng, dims, cplx)
        u = rng.random()
        if u < 0.3:
            # structured generators: self-adjoint (imaginary-time propagation, A = -H with H real symmetric or complex Hermitian) and
            # skew-adjoint (A = -iH) operators - I - hA is then Hermitian resp. normal, which a micro-solver might exploit
            with probe.oracle():
                H = gen.hermitian_tt(rng, dims, int(rng.integers(1, 3)), cplx)
                nrm = float(np.linalg.norm(mat(dense(H)), 2))
                A = ((-1.0 if u < 0.2 else -1j) / max(nrm, 1e-12)) * H
            cplx = cplx or u >= 0.2
        x0 = max_state(rng, dims, cplx if rng.random() < 0.7 else (not cplx))
        nz = [0, 2][int(rng.integers(0, 2))]
    return dims, A, x0, nz, markov, cplx


def w_explicit(ctx, rng, idx):
    dims, A, x0, nz, markov, cplx = setting(rng)
    hs = steps(rng)
    thr = [0.0, 1e-14][int(rng.integers(0, 2))]
    ctx.describe({'op': 'explicit_euler', 'dims': dims, 'markov': markov, 'complex': cplx, 'steps': hs, 'normalize': nz, 'threshold': thr})
    # (a rank bound is either far away or tight: the largest rank any tensor with these mode sizes can have - representable, so no cut)
    mrk = 10 ** 6 if rng.random() < 0.65 else max(gen.max_ranks(dims, [1] * len(dims)))
    ok, sol = call('ode.explicit_euler', ode.explicit_euler, A, x0, hs, prop=P, threshold=thr, max_rank=mrk, normalize=nz, progress=False)
    if ok:
        call('ode.errors_expl_euler', ode.errors_expl_euler, A, sol, hs, prop=P)
    if rng.random() < 0.5:  # the same operator / initial objects again, other step sizes (anything remembered between calls shows here)
        hs2 = steps(rng)
        call('ode.explicit_euler', ode.explicit_euler, A, x0, hs2, prop=P, threshold=thr, max_rank=10 ** 6, normalize=nz, progress=False, tags=['second_call'])
    if idx < 2:
        ctx.sample({'workload': 'explicit', 'dims': dims, 'markov_generator': markov, 'complex': cplx, 'step_sizes': hs, 'normalize': nz})


def w_explicit_long(ctx, rng, idx):
    """1200-1800 normalised explicit Euler steps with an amplification (or damping) of a factor 2-4 per step: the un-normalised recurrence would
    leave the floating-point range after a few hundred steps, the normalised one - what the scheme with `normalize` on is - stays at norm one"""
    dims = [[2, 2], [3, 2], [2, 2, 2]][int(rng.integers(0, 3))]
    cplx = bool(rng.integers(0, 2))
    with probe.oracle():
        A = general_operator(rng, dims, cplx)
        nA = float(np.linalg.norm(mat(dense(A)), 2))
        grow = rng.random() < 0.6
        A = ((float(rng.uniform(1.5, 3.0)) if grow else float(rng.uniform(0.5, 0.8))) / max(nA, 1e-12)) * A
        if not grow:  # strong damping: I + hA with h A ~ -(0.5..0.8) on a positive semi-definite part is not guaranteed; use the plain scaling, sign by chance
            pass
        x0 = max_state(rng, dims, cplx)
    N = int(rng.integers(1200, 1801))
    nz = 2
    ctx.describe({'op': 'explicit_euler (long normalised run)', 'dims': dims, 'complex': cplx, 'steps': N, 'normalize': nz, 'amplification_per_step': 'grow' if grow else 'shrink'})
    call('ode.explicit_euler', ode.explicit_euler, A, x0, [1.0] * N, prop=P, threshold=0.0, max_rank=10 ** 6, normalize=nz, progress=False, tags=['long_normalised_run'])


def w_implicit(ctx, rng, idx):
    dims, A, x0, nz, markov, cplx = setting(rng)
    hs = steps(rng)
    zero_first = rng.random() < 0.12
    if zero_first:
        # a time grid that lists the initial time twice (np.diff gives a first step of exactly zero, or of rounding size), together with
        # an initial value of low rank (a unit vector or a product state): the first stored state equals the initial one
        hs = [[0.0, 1e-16, 1e-13][int(rng.integers(0, 3))]] + hs + ([float(rng.uniform(0.05, 0.5))] if len(hs) < 2 else [])
        if not markov:
            with probe.oracle():
                d_ = len(dims)
                if rng.random() < 0.5:
                    x0 = tt.unit(dims, [int(rng.integers(0, m)) for m in dims])
                else:
                    x0 = gen.rand_tt(rng, dims, [1] * d_, [1] * (d_ + 1), cplx)
                    x0 = (1.0 / x0.norm()) * x0
    scheme = ['implicit_euler', 'trapezoidal_rule'][idx % 2]
    tts = ['als', 'mals'][int(rng.integers(0, 2))] if len(dims) >= 2 else 'als'
    if zero_first:
        tts = 'als'  # (MALS adapts the ranks to the low-rank first state; one two-site sweep from there need not be exact afterwards)
    micro = ['solve', 'lu'][int(rng.integers(0, 2))]
    g = max_state(rng, dims, cplx) if not markov else prob_state(rng, dims)
    with probe.oracle():
        if list(g.ranks) != gen.max_ranks(dims, [1] * len(dims)):
            g = max_state(rng, dims, False)
    same_obj = False
    with probe.oracle():
        if list(x0.ranks) == gen.max_ranks(dims, [1] * len(dims)) and rng.random() < 0.5:
            g, same_obj = x0, True  # the initial value itself serves as initial guess: ONE object in two argument positions
    ctx.describe({'op': scheme, 'dims': dims, 'markov': markov, 'complex': cplx, 'steps': hs, 'normalize': nz, 'tt_solver': tts, 'micro': micro, 'guess_is_initial_value': same_obj})
    fn = getattr(ode, scheme)
    ok, sol = call('ode.' + scheme, fn, A, x0, g, hs, prop=P, refusals=(np.linalg.LinAlgError,), tt_solver=tts, micro_solver=micro, normalize=nz, progress=False,
                   threshold=[0.0, 1e-14][int(rng.integers(0, 2))], repeats=int(rng.integers(1, 3)) if rng.random() < 0.9 else 0)
    if ok:
        efn = ode.errors_impl_euler if scheme == 'implicit_euler' else ode.errors_trapezoidal
        call('ode.' + efn.__name__, efn, A, sol, hs, prop=P)
    if rng.random() < 0.5:  # same objects, other step sizes / other inner solver
        tts2 = ['als', 'mals'][int(rng.integers(0, 2))] if len(dims) >= 2 and not zero_first else 'als'
        call('ode.' + scheme, fn, A, x0, g, steps(rng), prop=P, refusals=(np.linalg.LinAlgError,), tt_solver=tts2, micro_solver=['solve', 'lu'][int(rng.integers(0, 2))],
             normalize=nz, progress=False, threshold=0.0, repeats=1, tags=['second_call'])
    if idx < 2:
        ctx.sample({'workload': 'implicit', 'scheme': scheme, 'dims': dims, 'markov_generator': markov, 'step_sizes': hs, 'normalize': nz, 'tt_solver': tts, 'micro_solver': micro})


def w_hod(ctx, rng, idx):
    dims, A, x0, nz, markov, cplx = setting(rng)
    if markov and nz == 1:
        nz = 2  # HOD is not positivity preserving: the documented 1-norm (plain sum) is not a norm on its iterates
    order = [2, 4, 6, 3][int(rng.integers(0, 4))]
    if not markov:  # powers A^(2k-1) are formed in TT format: keep the operator ranks small
        A = general_operator(rng, dims, cplx, rmax=2)
    elif int(np.prod(dims)) > 12 and order > 4:
        order = 4
    # the library forms (hA)^(2k-1) as TT operator products without truncation: operator ranks grow like r^(order-1)
    # (observed: a rank-9 generator at order 6 asked for a 26 GiB core).  Keep that product representable.
    while order > 2 and max(A.ranks) ** (order - 1) > 1500:
        order = order - 2 if order % 2 == 0 else 2
    h = float(rng.uniform(0.05, 0.4))
    N = int(rng.integers(1, 5))
    prev = None
    if rng.random() < 0.4:
        prev = max_state(rng, dims, cplx)
        if rng.random() < 0.5:  # an over-parameterised representation of the previous value
            with probe.oracle():
                prev = prev + prev
    ctx.describe({'op': 'hod', 'dims': dims, 'complex': cplx, 'h': h, 'steps': N, 'order': order, 'normalize': nz, 'previous_given': prev is not None,
                  'previous_ranks': prev.ranks if prev is not None else None})
    kw = {} if prev is None else {'previous_value': prev}
    if rng.random() < 0.2:
        # a precomputed series operator (of another order than `order`, so that a recomputed one would differ)
        o2 = 4 if order <= 2 else 2
        if max(A.ranks) ** (o2 - 1) <= 1500:
            with probe.oracle():
                op = 2 * h * A.copy()
                tmp = A.copy()
                for k in range(2, o2 // 2 + 1):
                    tmp = tmp.dot(A).dot(A)
                    op = op + 2 / math.factorial(2 * k - 1) * h ** (2 * k - 1) * tmp
            kw['op_hod'] = op
    mrk = 10 ** 6 if rng.random() < 0.65 else max(gen.max_ranks(dims, [1] * len(dims)))
    call('ode.hod', ode.hod, A, x0, h, N, prop=P, order=order, threshold=[0.0, 1e-14][int(rng.integers(0, 2))], max_rank=mrk, normalize=nz, progress=False, **kw)
    # the same operator object (and step size) again with one setting changed: another order, another step size, or the operator
    # rescaled in place by its owner between the calls
    for _ in range(int(rng.integers(0, 3))):
        what = int(rng.integers(0, 3))
        order2, h2 = order, h
        if what == 0:
            order2 = [o for o in (2, 4, 6) if o != order and max(A.ranks) ** (o - 1) <= 1500][:1]
            if not order2:
                continue
            order2 = order2[0]
        elif what == 1:
            h2 = float(rng.uniform(0.05, 0.4))
        else:
            with probe.oracle():
                A.cores[0] = A.cores[0] * float(rng.uniform(0.5, 0.9))
        call('ode.hod', ode.hod, A, x0, h2, N, prop=P, order=order2, threshold=0.0, max_rank=10 ** 6, normalize=nz, progress=False, tags=['second_call'], **kw)


def w_errors(ctx, rng, idx):
    """defect formulas on arbitrary (not scheme-generated) state lists"""
    dims = dims_for(rng)
    d = len(dims)
    cplx = bool(rng.integers(0, 2))
    A = general_operator(rng, dims, cplx)
    n = int(rng.integers(2, 5))
    with probe.oracle():
        sol = [gen.rand_tt(rng, dims, [1] * d, gen.rand_ranks(rng, d, 3), cplx) for _ in range(n)]
    hs = [float(rng.uniform(0.05, 0.5)) for _ in range(n - 1)]
    ctx.describe({'op': 'errors_*', 'dims': dims, 'complex': cplx, 'steps': hs})
    call('ode.errors_expl_euler', ode.errors_expl_euler, A, sol, hs, prop=P)
    call('ode.errors_impl_euler', ode.errors_impl_euler, A, sol, hs, prop=P)
    call('ode.errors_trapezoidal', ode.errors_trapezoidal, A, sol, hs, prop=P)


def w_adaptive(ctx, rng, idx):
    dims = dims_for(rng, cap=27)
    A = markov_generator(rng, dims)
    x0 = prob_state(rng, dims)
    g = prob_state(rng, dims)
    te = float(rng.uniform(0.2, 1.5))
    sm = ['two_step_Euler', 'trapezoidal_rule'][int(rng.integers(0, 2))]
    kw = {}
    u = rng.random()
    if u < 0.25:  # a short horizon: the caller's first step is longer than the whole interval
        te = float(10 ** rng.uniform(-3, -1))
        h0 = te * float(rng.uniform(1.0, 20.0))
    elif u < 0.4:
        h0 = te * float(rng.uniform(0.5, 1.5))
    else:
        h0 = float(10 ** rng.uniform(-2, -1))
    if rng.random() < 0.3:
        kw['step_size_max'] = float(rng.uniform(0.05, 2.0))
    if rng.random() < 0.3:
        kw['closeness_min'] = float(10 ** rng.uniform(-6, -2))
    etol = float(10 ** rng.uniform(-3, -1)) if rng.random() < 0.8 else float(rng.uniform(0.1, 1.0))
    ctx.describe({'op': 'adaptive_step_size', 'dims': dims, 'time_end': te, 'second_method': sm, 'step_size_first': h0, 'error_tol': etol, 'kw': kw})
    call('ode.adaptive_step_size', ode.adaptive_step_size, A, x0, g, te, prop=P, refusals=(np.linalg.LinAlgError,), step_size_first=h0,
         second_method=sm, progress=False, solver=['solve', 'lu'][int(rng.integers(0, 2))], error_tol=etol, **kw)


WORKLOADS = [
    Workload('explicit', w_explicit, 120, 2500),
    Workload('explicit_long', w_explicit_long, 2, 16),
    Workload('implicit', w_implicit, 160, 3000),
    Workload('hod', w_hod, 120, 2500),
    Workload('errors', w_errors, 60, 1200),
    Workload('adaptive', w_adaptive, 32, 600),
]
REQUIRED = ['C09|ode.explicit_euler:equals_dense_recurrence', 'C09|ode.implicit_euler:equals_dense_recurrence', 'C09|ode.trapezoidal_rule:equals_dense_recurrence',
            'C09|ode.hod:equals_dense_recurrence', 'C09|ode.explicit_euler:one_state_per_step_plus_initial', 'C09|ode.explicit_euler:unit_2_norm',
            'C09|ode.explicit_euler:unit_1_norm', 'C09|ode.implicit_euler:unit_1_norm', 'C09|ode.hod:unit_2_norm',
            'C09|ode.errors_expl_euler:equals_relative_defect', 'C09|ode.errors_impl_euler:equals_relative_defect', 'C09|ode.errors_trapezoidal:equals_relative_defect',
            'C09|ode.adaptive_step_size:time_points_strictly_increasing', 'C09|ode.adaptive_step_size:time_points_not_beyond_end',
            'C09|ode.adaptive_step_size:one_state_per_time_point', 'C06|ode.adaptive_step_size:argument_unchanged', 'C06|ode.hod:argument_unchanged']
