"""C05 - global SVD and pseudoinverse of a TT match the matrix ones.  Deciding monitors: SVD and Pinv contracts
(orthonormal factors, singular values vs numpy.linalg.svd of the unfolding, reconstruction, pinv vs numpy.linalg.pinv,
input bitwise unchanged via M4)."""
import numpy as np

from .. import gen, probe
from ..drive import call, refused_then_used
from ..dense import dense
from ..shard import Workload
from ._common import arm_tt
from . import ambient

P = 'C05'
tt = None


def setup(ctx):
    global tt
    tt = arm_tt(ctx)
    gen.LAYOUT = 0.15
    gen.ALIAS = 0.12
    gen.PROV = 0.25  # a quarter of the generated operands come with a history of library operations (gen.provenance)


def unbalanced_tt(rng):
    """one mode with hundreds to thousands of points (a fine grid, a long time series) next to small ones: very tall / very wide
    unfolded cores.  The big core is generic, rank-deficient (dependent slices) or graded (slices of very different scale)."""
    d = int(rng.integers(2, 4))
    rows = [int(rng.integers(2, 5)) for _ in range(d)]
    j = int(rng.integers(0, d))
    rows[j] = int(rng.integers(300, 3001))
    while int(np.prod(rows)) > 100000:
        rows[j] = max(rows[j] // 2, 150)
    cplx = gen.rand_cplx(rng)
    ranks = [1] + [int(rng.integers(2, 5)) for _ in range(d - 1)] + [1]
    cores = gen.rand_cores(rng, rows, [1] * d, ranks, cplx)
    u = int(rng.integers(0, 3))
    if cores[j].dtype.kind in 'iu':  # (integer-typed cores: the scalings below need a floating type)
        cores[j] = cores[j].astype(float)
    c = cores[j]
    if u == 1:  # dependent slices on the rank indices of the big core
        if c.shape[0] > 1:
            c[-1] = 0.5 * c[0]
        if c.shape[3] > 1:
            c[:, :, :, -1] = -2.0 * c[:, :, :, 0]
    elif u == 2:  # graded: slices of very different scale
        if c.shape[0] > 1:
            c *= (10.0 ** (-2.0 * np.arange(c.shape[0])))[:, None, None, None]
        if c.shape[3] > 1:
            c *= (10.0 ** (-1.5 * np.arange(c.shape[3])))[None, None, None, :]
    return tt.TT(cores), 'unbalanced_' + ['generic', 'rank_deficient', 'graded'][u]


def vector_tt(rng):
    if rng.random() < 0.06:
        return unbalanced_tt(rng)
    d = int(rng.integers(2, 6))
    rows = gen.rand_dims(rng, d, 4, p_one=0.2)
    while np.prod(rows) > 4000:
        rows[int(rng.integers(0, d))] = 2
    cplx = gen.rand_cplx(rng)
    k = int(rng.integers(0, 3))
    if rng.random() < 0.1:
        # ONE ndarray object at several positions (product states [site] * d, a translation-invariant bulk between two end caps), some of
        # them Fortran-ordered: the documented way to write such tensors; whatever a sweep does in the buffer of one position shows at the others
        n = int(rng.integers(2, 4))
        d = int(rng.integers(2, 6))
        cp = bool(cplx) if cplx != 'mixed' else True
        r = int(rng.integers(1, 3))
        if r == 1:
            site = gen.randn(rng, (1, n, 1, 1), cp)
            cores = [site] * d
        else:
            first, site, last = gen.randn(rng, (1, n, 1, r), cp), gen.randn(rng, (r, n, 1, r), cp), gen.randn(rng, (r, n, 1, 1), cp)
            cores = [first] + [site] * max(d - 2, 0) + [last]
            if rng.random() < 0.4:
                cores[-1] = np.asfortranarray(cores[-1])
        if rng.random() < 0.3:
            cores = [np.asfortranarray(c) if c is not cores[1 % len(cores)] else c for c in cores]
        t = tt.TT(list(cores))
        return t, 'shared_core_objects'
    if k == 0:  # full-rank unfoldings: maximal feasible ranks
        ranks = gen.max_ranks(rows, [1] * d)
        kind = 'full_rank'
        cores = gen.rand_cores(rng, rows, [1] * d, ranks, cplx)
    elif k == 1:  # low TT rank: rank-deficient unfoldings, exactly representable
        ranks = gen.feasible_ranks(rows, [1] * d, gen.rand_ranks(rng, d, 3, p_one=0.2))
        kind = 'rank_deficient_unfoldings'
        cores = gen.rand_cores(rng, rows, [1] * d, ranks, cplx)
    else:  # over-parameterised representation
        ranks = [1] + [int(rng.integers(2, 6)) for _ in range(d - 1)] + [1]
        kind = 'overparam'
        cores = gen.rand_cores(rng, rows, [1] * d, ranks, cplx)
    sc = gen.rand_scale(rng, span=8 if rng.random() < 0.5 else 25)  # also magnitudes far below machine epsilon / far above 1/eps
    if sc != 1.0:
        gen.apply_scale(cores, rng, sc)
        kind += '_scaled'
    t = tt.TT(cores)
    with probe.oracle():  # integer-valued cores can cancel exactly: a numerically zero tensor is inadmissible for relative cuts (0/0)
        from ..dense import dense_b, core_scale
        if float(np.max(np.abs(dense_b(t)))) <= 1e-9 * core_scale(t.cores):
            return vector_tt(rng)
    if rng.random() < 0.5:
        t = gen.provenance(rng, t)
        kind += '_with_history'
    return t, kind


def clone(t):
    with probe.oracle():
        if len(set(id(c) for c in t.cores)) < len(t.cores):
            return tt.TT(gen.clone_cores(t.cores))  # (keeps the aliasing pattern: one object at several positions stays one object)
        return t.copy() if (t.order + len(t.cores[0].ravel())) % 2 else tt.TT([c.copy() for c in t.cores])  # (copy() carries along whatever the object carries)


def w_svd(ctx, rng, idx):
    t, kind = vector_tt(rng)
    d = t.order
    ctx.describe({'op': 'svd at every index', 'rows': t.row_dims, 'ranks': t.ranks, 'kind': kind, 'complex': bool(np.iscomplexobj(t.cores[0]))})
    for index in range(1, d):
        call('TT.svd', t.svd, index, prop=P)
        call('TT.svd', t.svd, index, prop=P, threshold=1e-10)
        call('TT.svd', lambda: t.svd(index, max_rank=int(rng.integers(1, 4))), prop=P)
    if rng.random() < 0.3:
        # a split position outside the train (a caller's off-by-one), without overwriting: the call is refused and the train is used further -
        # "neither call changes the input unless overwriting was requested" holds for refused calls as well (judged in the wrapper)
        bad = [d, d + 1, d + 3, -1][int(rng.integers(0, 4))]
        refused_then_used('TT.svd', t.svd, bad)
        call('TT.svd', t.svd, int(rng.integers(1, d)), prop=P, tags=['after_refused_call'])
    index = int(rng.integers(1, d))
    u = clone(t)
    call('TT.svd', u.svd, index, prop=P, overwrite=True)
    # ... and the train the overwriting call leaves behind is a train like any other: split it again, in place and not
    i2 = int(rng.integers(1, d))
    call('TT.svd', u.svd, i2, prop=P, tags=['after_overwriting_call'], overwrite=True)
    call('TT.svd', lambda: u.svd(int(rng.integers(1, d)), threshold=1e-10), prop=P, tags=['after_overwriting_call'])
    if idx < 3:
        ctx.sample({'workload': 'svd', 'row_dims': t.row_dims, 'ranks': t.ranks, 'kind': kind, 'indices': list(range(1, d))})


def w_pinv(ctx, rng, idx):
    t, kind = vector_tt(rng)
    d = t.order
    ctx.describe({'op': 'pinv at every index', 'rows': t.row_dims, 'ranks': t.ranks, 'kind': kind, 'complex': bool(np.iscomplexobj(t.cores[0]))})
    for index in range(1, d):
        call('TT.pinv', t.pinv, index, prop=P)
        call('TT.pinv', t.pinv, index, prop=P, threshold=1e-10)
        call('TT.pinv', lambda: t.pinv(index, threshold=float(10 ** rng.uniform(-12, -6))), prop=P)
    if rng.random() < 0.3:
        bad = [d, d + 1, d + 3, -1][int(rng.integers(0, 4))]
        refused_then_used('TT.pinv', t.pinv, bad)
        call('TT.pinv', t.pinv, int(rng.integers(1, d)), prop=P, tags=['after_refused_call'], threshold=1e-10)
    index = int(rng.integers(1, d))
    u = clone(t)
    call('TT.pinv', u.pinv, index, prop=P, threshold=1e-10, overwrite=True)
    i2 = int(rng.integers(1, d))
    call('TT.pinv', u.pinv, i2, prop=P, tags=['after_overwriting_call'], threshold=1e-10, overwrite=True)


def w_exact_graded(ctx, rng, idx):
    """exactly representable, strongly graded data: the diagonal tensor sum_a s_a e_a (x) ... (x) e_a with s = (1, 2^-a, 2^-b), a in 10..30,
    b in 52..70.  Every unfolding has exactly these singular values - accurately represented although their ratio is below machine
    epsilon - and the pseudoinverse for threshold 0 is sum_a (1/s_a) e_a (x) ... (x) e_a exactly.  (The general contract declares ratios
    below 1e-8 undecidable because for generic data they are rounding noise; here the reference is known in closed form.)"""
    d = int(rng.integers(2, 5))
    r = int(rng.integers(2, 4))
    n = [int(rng.integers(r, 5)) for _ in range(d)]
    sv = [1.0, 2.0 ** -int(rng.integers(10, 31)), 2.0 ** -int(rng.integers(52, 71))][:r]
    if rng.random() < 0.5:
        sv = [x * 2.0 ** int(rng.integers(-20, 21)) for x in sv]
    perm = [rng.permutation(n[i])[:r] for i in range(d)]
    cores = []
    for i in range(d):
        r1, r2 = (1 if i == 0 else r), (1 if i == d - 1 else r)
        c = np.zeros((r1, n[i], 1, r2))
        for a in range(r):
            c[0 if i == 0 else a, int(perm[i][a]), 0, 0 if i == d - 1 else a] = sv[a] if i == 0 else 1.0
        cores.append(c)
    cplx = rng.random() < 0.3
    if cplx:
        cores = [c * (1j if k == 0 else 1.0) for k, c in enumerate(cores)]
    t = tt.TT(cores)
    index = int(rng.integers(1, d))
    ctx.describe({'op': 'pinv / svd on an exactly graded diagonal tensor', 'dims': n, 'rank': r, 'singular_values': sv, 'index': index, 'complex': cplx})
    ok, p_ = call('TT.pinv', t.pinv, index, prop=P, tags=['exactly_graded'])
    if ok:
        with probe.oracle():
            want = np.zeros(n, dtype=complex)
            for a in range(r):
                want[tuple(int(perm[i][a]) for i in range(d))] = 1.0 / sv[a] * (1j if cplx else 1.0)  # conj-transpose of pinv: (1/conj(s))^* ...
            got = dense(p_).reshape(n) if list(p_.row_dims) == n else None
            # the pseudoinverse of s * (i) e f^T is (1/s) * (-i) f e^T; the library returns its conjugate transpose: (1/s) * (i) e f^T
            good = got is not None and bool(np.allclose(got, want, rtol=1e-9, atol=1e-9 * min(1.0 / x for x in sv)))
        ctx.check('TT.pinv', 'exactly_graded_spectrum_inverted_exactly', good, ['index=%s' % ('first' if index == 1 else 'last' if index == d - 1 else 'inner')],
                  {'singular_values': sv, 'dims': n, 'index': index, 'max_abs_got': None if got is None else float(np.max(np.abs(got)))} if not good else None, prop=P)
    ok, r_ = call('TT.svd', t.svd, index, prop=P, tags=['exactly_graded'])
    if ok:
        s_got = np.sort(np.asarray(r_[1], dtype=float))[::-1]
        good = len(s_got) == r and bool(np.allclose(s_got, np.sort(np.array(sv))[::-1], rtol=1e-12, atol=0.0))
        ctx.check('TT.svd', 'exactly_graded_singular_values', good, [], {'got': s_got, 'want': sv} if not good else None, prop=P)


def w_flags(ctx, rng, idx):
    """svd / pinv with one or both orthonormalisation sweeps switched off, on input that is in exactly the gauge the omitted
    sweep would have produced - and not in the other one, so that the remaining sweep has real work to do"""
    t, kind = vector_tt(rng)
    d = t.order
    index = int(rng.integers(1, d))
    which = int(rng.integers(0, 3))
    with probe.oracle():
        u = tt.TT(gen.clone_cores(t.cores))
        if which == 0:  # left part orthonormal only
            u.ortho_left(end_index=max(index - 2, -1)) if index >= 2 else None
            fl, fr = False, True
        elif which == 1:  # right part orthonormal only
            u.ortho_right(end_index=index)
            fl, fr = True, False
        else:
            u.ortho_left(end_index=max(index - 2, -1)) if index >= 2 else None
            u.ortho_right(end_index=index)
            fl, fr = False, False
    ctx.describe({'op': 'svd/pinv with sweeps off', 'rows': t.row_dims, 'ranks': u.ranks, 'kind': kind, 'index': index, 'ortho_l': fl, 'ortho_r': fr})
    call('TT.svd', u.svd, index, prop=P, ortho_l=fl, ortho_r=fr)
    call('TT.pinv', u.pinv, index, prop=P, ortho_l=fl, ortho_r=fr)
    call('TT.svd', u.svd, index, prop=P, threshold=1e-10, ortho_l=fl, ortho_r=fr)
    call('TT.pinv', u.pinv, index, prop=P, threshold=1e-10, ortho_l=fl, ortho_r=fr)


WORKLOADS = [
    Workload('svd', w_svd, 300, 6000),
    Workload('exact_graded', w_exact_graded, 80, 1500),
    Workload('pinv', w_pinv, 300, 6000),
    Workload('flags', w_flags, 200, 4000),
    ambient.WORKLOAD,
]
REQUIRED = ['C05|TT.svd:u_orthonormal_columns', 'C05|TT.svd:v_orthonormal_rows', 'C05|TT.svd:singular_values', 'C05|TT.svd:reconstruction',
            'C05|TT.svd:number_of_singular_values', 'C05|TT.svd:max_rank', 'C05|TT.pinv:value', 'C06|TT.svd:argument_unchanged',
            'C06|TT.pinv:argument_unchanged']
