"""C11 - TDVP and Krylov propagators are exact on representable dynamics and conservative.  Deciding monitors: Tdvp /
Krylov contracts (vs expm(-i h H) at maximal ranks; list shape; inputs unchanged), M7 trace of norm and energy after
every micro-step of the one-site scheme, M6 environment oracle on the micro matrices as called from ode's namespace."""
import numpy as np

from .. import gen, probe, monitors_sle, monitors_ode
from ..dense import dense, mat
from ..drive import call
from ..shard import Workload
from ._common import arm_light

P = 'C11'
tt = None
ode = None


def setup(ctx):
    global tt, ode
    tt = arm_light(ctx)
    monitors_sle.install()
    ode = monitors_ode.install_tdvp()


def problem(rng, dmin=1, dmax=4, cap=64):
    d = int(rng.integers(dmin, dmax + 1))
    if rng.random() < 0.12:
        d = 1  # a single site is a tensor train too (the state then trivially has maximal ranks)
    dims = [int(rng.integers(2, 4)) if rng.random() > 0.12 else int(rng.integers(1, 5)) for _ in range(d)]
    if all(x == 1 for x in dims):
        dims[int(rng.integers(0, d))] = 2
    while int(np.prod(dims)) > cap:
        dims[int(np.argmax(dims))] -= 1
    cplx = bool(rng.integers(0, 2))
    with probe.oracle():
        if d > 1 and rng.random() < 0.2:
            # uncoupled or very weakly coupled sites: H = sum_i h_i (+ 1e-9 * coupling) - product states stay (nearly) product states
            H = None
            for i in range(d):
                cs = [np.eye(m).reshape(1, m, m, 1) for m in dims]
                a = gen.randn(rng, (dims[i], dims[i]), cplx)
                cs[i] = ((a + a.conj().T) / 2).reshape(1, dims[i], dims[i], 1)
                H = tt.TT(cs) if H is None else H + tt.TT(cs)
            if rng.random() < 0.5:
                H = H + 1e-9 * gen.hermitian_tt(rng, dims, 1, cplx)
        else:
            H = gen.hermitian_tt(rng, dims, int(rng.integers(1, 4)), cplx)
        H = (1.0 / max(float(np.linalg.norm(mat(dense(H)), 2)), 1e-12)) * H
        if rng.random() < 0.25:
            H = gen.relayout_tt(rng, H)  # operator cores in other memory layouts (Fortran order, strided / offset views)
    return dims, H, cplx


def units(rng, H, h):
    """the same evolution in other units: H -> s H, h -> h / s (energies of 1e-21 J with times of 1e20 / J, or the reverse); only the
    product h * H enters the statement"""
    if rng.random() < 0.85:
        return H, h, 1.0
    sc = float(10 ** rng.uniform(-22, -13)) if rng.random() < 0.7 else float(10 ** rng.uniform(6, 12))
    with probe.oracle():
        return sc * H, h / sc, sc


def state(rng, dims, kind, cplx):
    d = len(dims)
    if kind == 'maximal':
        r = gen.max_ranks(dims, [1] * d)
    elif kind == 'rank1':
        r = [1] * (d + 1)
    else:
        r = gen.feasible_ranks(dims, [1] * d, [1] + [int(rng.integers(1, 4)) for _ in range(d - 1)] + [1])
    with probe.oracle():
        if kind == 'maximal' and d > 1 and rng.random() < 0.12:
            # a product state stored at full bond dimension (zero padding, as x + 0 * y produces it): maximal TT ranks with directions of
            # exactly zero weight, right-orthonormalised like every other state
            cs = []
            for i, m in enumerate(dims):
                c = np.zeros((r[i], m, 1, r[i + 1]), dtype=complex if cplx else float)
                c[0, :, 0, 0] = gen.randn(rng, (m,), cplx)
                cs.append(c)
            t = tt.TT(gen.right_orthonormal_cores(cs))
        elif kind == 'maximal' and d > 1 and rng.random() < 0.25:
            # weakly entangled state of maximal ranks: a product state plus a full-rank admixture of relative size 1e-7.5..1e-6.3
            # (singular values across every bond far above any truncation threshold, far below the leading one)
            v = np.ones(1, dtype=complex if cplx else float)
            for m in dims:
                v = np.kron(v, gen.randn(rng, (m,), cplx))
            w = gen.randn(rng, v.shape, cplx)
            v = v / np.linalg.norm(v) + float(10 ** rng.uniform(-7.5, -6.3)) * w / np.linalg.norm(w)
            t0 = tt.TT(v.reshape(dims + [1] * d))
            t = tt.TT(gen.right_orthonormal_cores([c.copy() for c in t0.cores])) if list(t0.ranks) == list(r) else tt.TT(gen.right_orthonormal_cores(gen.rand_cores(rng, dims, [1] * d, r, cplx)))
        else:
            t = tt.TT(gen.right_orthonormal_cores(gen.rand_cores(rng, dims, [1] * d, r, cplx)))
        if rng.random() < 0.2:
            t = gen.relayout_tt(rng, t)
        if rng.random() < 0.2:  # (the equations are linear: a right-orthonormal state of any norm is admissible where no normalisation is asked for)
            t.cores[0] = t.cores[0] * float(10 ** rng.uniform(-6, 3))
        return t


def long_step(rng, idx):
    """micro systems of 64 and more unknowns (maximal ranks on [4,4,4], [2,4,4,2], [2]*6) with long steps (h ||H|| = 20..100): the
    local propagators are exponentials of large arguments - the statement holds for all step sizes"""
    dims = [[4, 4, 4], [2, 4, 4, 2], [2, 2, 2, 2, 2, 2], [3, 4, 4]][int(rng.integers(0, 4))]
    if idx % 40 == 27:  # micro systems of 256-512 unknowns (state spaces of 256 at maximal ranks)
        dims = [[2] * 8, [4, 4, 4, 4], [2, 4, 4, 4, 2]][int(rng.integers(0, 3))]
    cplx = bool(rng.integers(0, 2))
    with probe.oracle():
        H = gen.hermitian_tt(rng, dims, int(rng.integers(1, 3)), cplx)
        H = (1.0 / max(float(np.linalg.norm(mat(dense(H)), 2)), 1e-12)) * H
    return dims, H, cplx, float(rng.uniform(20, 100))


def w_tdvp1(ctx, rng, idx):
    dims, H, cplx = problem(rng)
    kind = ['maximal', 'rank1', 'intermediate'][int(rng.integers(0, 3))]
    hl = None
    if idx % 40 in (7, 27):
        dims, H, cplx, hl = long_step(rng, idx)
        kind = 'maximal'
    x0 = state(rng, dims, kind, cplx or rng.random() < 0.5)
    h, N = gen.as_float(rng, float(rng.uniform(0.01, 0.3))), gen.as_int(rng, int(rng.integers(1, 4)))
    if hl is not None:
        h, N = hl, int(rng.integers(1, 3))
    H, h, usc = units(rng, H, h)
    nz = 0 if rng.random() < 0.8 else 2
    ctx.describe({'op': 'tdvp1site', 'dims': dims, 'complex': cplx, 'ranks': x0.ranks, 'kind': kind, 'h': h, 'steps': N, 'normalize': nz})
    call('ode.tdvp1site', ode.tdvp1site, H, x0, h, N, prop=P, tags=['scheme=tdvp1site'], normalize=nz)
    if rng.random() < 0.4:  # the same operator / state objects again with another step size and step count, then with the operator rescaled in place
        call('ode.tdvp1site', ode.tdvp1site, H, x0, float(rng.uniform(0.01, 0.3)) / usc, int(rng.integers(1, 4)), prop=P, tags=['scheme=tdvp1site', 'second_call'], normalize=nz)
        with probe.oracle():
            H.cores[-1] = H.cores[-1] * float(rng.uniform(0.4, 0.9))
        call('ode.tdvp1site', ode.tdvp1site, H, x0, h, N, prop=P, tags=['scheme=tdvp1site', 'second_call', 'objects_changed_in_place'], normalize=nz)
    if idx < 3:
        ctx.sample({'workload': 'tdvp1site', 'dims': dims, 'complex_operator': cplx, 'initial_ranks': x0.ranks, 'h': h, 'steps': N})


def w_tdvp2(ctx, rng, idx):
    dims, H, cplx = problem(rng)
    kind = ['maximal', 'maximal', 'intermediate'][int(rng.integers(0, 3))]
    hl = None
    if idx % 40 == 11:
        dims, H, cplx, hl = long_step(rng, idx)
        kind = 'maximal'
    x0 = state(rng, dims, kind, cplx or rng.random() < 0.5)
    h, N = float(rng.uniform(0.01, 0.3)), int(rng.integers(1, 4))
    if hl is not None:
        h, N = hl, int(rng.integers(1, 3))
    H, h, usc = units(rng, H, h)
    thr = [0, 1e-12][int(rng.integers(0, 2))]
    tight = max(gen.max_ranks(dims, [1] * len(dims)))  # (the largest rank these mode sizes admit: a bound that is tight but cuts nothing)
    mr = [10 ** 4, np.inf, 2, tight][int(rng.integers(0, 4))] if kind != 'maximal' else [10 ** 4, np.inf, tight][int(rng.integers(0, 3))]
    ctx.describe({'op': 'tdvp2site', 'dims': dims, 'complex': cplx, 'ranks': x0.ranks, 'kind': kind, 'h': h, 'steps': N, 'threshold': thr, 'max_rank': str(mr)})
    nz = 0 if rng.random() < 0.8 else 2
    call('ode.tdvp2site', ode.tdvp2site, H, x0, h, N, prop=P, tags=['scheme=tdvp2site'], threshold=thr, max_rank=mr, normalize=nz)
    if rng.random() < 0.4:
        call('ode.tdvp2site', ode.tdvp2site, H, x0, float(rng.uniform(0.01, 0.3)) / usc, int(rng.integers(1, 4)), prop=P, tags=['scheme=tdvp2site', 'second_call'], threshold=thr, max_rank=mr)
    if idx < 2:
        ctx.sample({'workload': 'tdvp2site', 'dims': dims, 'initial_ranks': x0.ranks, 'h': h, 'steps': N, 'threshold': thr, 'max_rank': str(mr)})


def w_hybrid(ctx, rng, idx):
    dims, H, cplx = problem(rng)
    kind = ['maximal', 'rank1', 'intermediate'][int(rng.integers(0, 3))]
    x0 = state(rng, dims, kind, cplx or rng.random() < 0.5)
    h, N = float(rng.uniform(0.01, 0.3)), int(rng.integers(1, 3))
    mr = [50, 10 ** 4, 2][int(rng.integers(0, 3))]
    ctx.describe({'op': 'tdvp (hybrid)', 'dims': dims, 'complex': cplx, 'ranks': x0.ranks, 'kind': kind, 'h': h, 'steps': N, 'max_rank': mr})
    call('ode.tdvp', ode.tdvp, H, x0, h, N, prop=P, tags=['scheme=tdvp'], threshold=1e-12, max_rank=mr)


def w_krylov(ctx, rng, idx):
    dims, H, cplx = problem(rng, dmin=1, dmax=3, cap=16)
    d = len(dims)
    n = int(np.prod(dims))
    with probe.oracle():
        x0 = gen.rand_tt(rng, dims, [1] * d, gen.max_ranks(dims, [1] * d), True if cplx else bool(rng.integers(0, 2)))
        x0 = (1.0 / x0.norm()) * x0
        if rng.random() < 0.3:  # (the equation is linear: an initial state of any norm is admissible where no normalisation is asked for)
            x0 = float(10 ** rng.uniform(-3, 3)) * x0
    h = float(rng.uniform(0.05, 1.0))
    H, h, usc = units(rng, H, h)
    ctx.describe({'op': 'krylov', 'dims': dims, 'complex': cplx, 'dimension': n, 'h': h})
    call('ode.krylov', ode.krylov, H, x0, n, h, prop=P, threshold=[0, 1e-14, 1e-12][int(rng.integers(0, 3))], max_rank=10 ** 4 if rng.random() < 0.7 else max(gen.max_ranks(dims, [1] * d)), normalize=[0, 0, 2][int(rng.integers(0, 3))])
    if rng.random() < 0.5:  # the same operator / state objects again: another step size, and the objects changed in place by their owner
        call('ode.krylov', ode.krylov, H, x0, n, float(rng.uniform(0.05, 1.0)) / usc, prop=P, threshold=0, max_rank=10 ** 4, tags=['second_call'])
        with probe.oracle():
            if rng.random() < 0.5:
                x0.conj(overwrite=True) if rng.random() < 0.5 else x0.cores.__setitem__(0, x0.cores[0] * np.exp(1j * rng.uniform(0.3, 3.0)))
            else:
                H.cores[0] = H.cores[0] * float(rng.uniform(0.4, 0.9))
        call('ode.krylov', ode.krylov, H, x0, n, h, prop=P, threshold=0, max_rank=10 ** 4, tags=['second_call', 'objects_changed_in_place'])
    if rng.random() < 0.3 and n > 2:  # small Krylov space: only structure / inputs unchanged are asserted
        call('ode.krylov', ode.krylov, H, x0, 2, h, prop=P)


def w_long(ctx, rng, idx):
    """one call over more than a thousand steps (housekeeping that an implementation might do every so many steps must not
    disturb the conserved quantities): small chains, ranks below maximal, norm and energy monitored at every micro-step"""
    dims = [[2, 3, 2], [2, 2, 2, 2], [3, 2]][idx % 3]
    d = len(dims)
    cplx = bool(rng.integers(0, 2))
    with probe.oracle():
        H = gen.hermitian_tt(rng, dims, 2, cplx)
        H = (1.0 / max(float(np.linalg.norm(mat(dense(H)), 2)), 1e-12)) * H
        r = gen.feasible_ranks(dims, [1] * d, [1] + [2] * (d - 1) + [1])
        x0 = tt.TT(gen.right_orthonormal_cores(gen.rand_cores(rng, dims, [1] * d, r, cplx)))
    N = int(rng.integers(1001, 1100))
    ctx.describe({'op': 'tdvp1site long run', 'dims': dims, 'ranks': x0.ranks, 'steps': N})
    call('ode.tdvp1site', ode.tdvp1site, H, x0, 0.01, N, prop=P, tags=['scheme=tdvp1site', 'long_run'])


WORKLOADS = [
    Workload('long', w_long, 1, 6),
    Workload('tdvp1site', w_tdvp1, 160, 3000),
    Workload('tdvp2site', w_tdvp2, 120, 2500),
    Workload('hybrid', w_hybrid, 60, 1200),
    Workload('krylov', w_krylov, 80, 1500),
]
REQUIRED = ['C11|ode.tdvp1site:exact_at_maximal_ranks', 'C11|ode.tdvp2site:exact_at_maximal_ranks', 'C11|ode.tdvp1site:norm_conserved_at_every_micro_step',
            'C11|ode.tdvp1site:energy_conserved_at_every_micro_step', 'C11|ode.tdvp1site:sweep_order', 'C11|ode.tdvp1site:one_state_per_step_plus_initial',
            'C11|ode.tdvp2site:one_state_per_step_plus_initial', 'C11|ode.krylov:exact_with_full_krylov_space',
            'C11|sle.__construct_micro_matrix_als:equals_projected_operator', 'C11|sle.__construct_micro_matrix_mals:equals_projected_operator',
            'C06|ode.tdvp1site:argument_unchanged', 'C06|ode.tdvp2site:argument_unchanged', 'C06|ode.krylov:argument_unchanged']
