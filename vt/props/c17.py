"""C17 - tensor-based DMD equals matrix DMD of the unfolded snapshots.  Deciding monitors: Tdmd contract
(vt.monitors_tdmd): eigenvalue multisets, mode equations, returned TT invariant, inputs unchanged (M4)."""
import numpy as np

from .. import probe, monitors_tdmd
from ..drive import call
from ..shard import Workload
from ._common import arm_light

P = 'C17'
tt = None
td = None


def setup(ctx):
    global tt, td
    tt = arm_light(ctx)
    td = monitors_tdmd.install()


def w_tdmd(ctx, rng, idx):
    nd = int(rng.integers(1, 4))
    dims = [int(rng.integers(1, 5)) for _ in range(nd)]
    if int(np.prod(dims)) == 1:
        dims[0] = 2
    m = int(rng.integers(2, 8))
    tall = rng.random() < 0.08
    if tall:
        # a fine grid in the last spatial direction and few snapshots: the unfolded core in front of the snapshot core is very tall
        nd = int(rng.integers(1, 3))
        dims = [int(rng.integers(1, 4)) for _ in range(nd - 1)] + [int(rng.integers(300, 2600))]
        m = int(rng.integers(2, 6))
    N = int(np.prod(dims))
    kind = int(rng.integers(0, 4))
    if kind == 3 and (N < 2 or m < 2):
        kind = 1
    if kind == 3:
        # real oscillating data: z_k = Re(sum_j b_j mu_j^k) with complex mu_j - the DMD spectrum consists of complex-conjugate pairs and the
        # mode coefficients are genuinely complex although every snapshot is real
        p_ = int(rng.integers(1, min(N, m) // 2 + 1))
        mu = rng.uniform(0.6, 1.1, size=p_) * np.exp(1j * rng.uniform(0.3, 2.8, size=p_))
        Bc = rng.standard_normal((N, p_)) + 1j * rng.standard_normal((N, p_))
        Z = 2.0 * np.real(Bc @ np.stack([mu ** k for k in range(m + 1)], axis=1))
        thr = 1e-10
        label = 'oscillating_real'
    elif kind == 0:  # low-rank linear dynamics z_{k+1} = A z_k
        r = int(rng.integers(1, min(N, m) + 1))
        B = rng.standard_normal((N, r))
        lam = rng.uniform(0.3, 1.2, size=r) * np.sign(rng.standard_normal(r))
        if r > 1 and rng.random() < 0.25:  # one very strongly damped mode: a non-zero eigenvalue 1e-11..1e-8.5 times the largest
            lam[int(rng.integers(0, r))] = float(10 ** rng.uniform(-11, -8.5)) * (1 if rng.random() < 0.5 else -1)
        Z = np.stack([B @ (lam ** k * rng.standard_normal(r) ** 0) for k in range(m + 1)], axis=1)
        Z = B @ np.stack([lam ** k for k in range(m + 1)], axis=1) * 1.0
        thr = 1e-10
        label = 'low_rank'
    elif kind == 1:
        Z = rng.standard_normal((N, m + 1))
        thr = 0.0
        label = 'noisy'
    else:
        r = int(rng.integers(1, min(N, m) + 1))
        Z = rng.standard_normal((N, r)) @ rng.standard_normal((r, m + 1))
        thr = 1e-10
        label = 'rank_deficient'
    if rng.random() < 0.3:  # complex snapshots (wave functions, Fourier-transformed fields): same construction with complex factors
        if label == 'noisy':
            Z = Z + 1j * rng.standard_normal(Z.shape)
        else:
            r_ = Z.shape[0]
            Z = (rng.standard_normal((N, N)) + 1j * rng.standard_normal((N, N))) @ Z * (1.0 / np.sqrt(N)) if label == 'rank_deficient' else Z * np.exp(1j * rng.uniform(0, 6.28, size=(N, 1)))
        label += '_complex'
    X, Y = Z[:, :-1], Z[:, 1:]
    if min(N, m) > 1 and thr == 0.0 and N < m:
        thr = 0.0
    with probe.oracle():
        x = tt.TT(X.reshape(dims + [m] + [1] * (nd + 1)))
        y = tt.TT(Y.reshape(dims + [m] + [1] * (nd + 1)))
        if rng.random() < 0.3:
            # the same snapshots with inflated TT ranks: untruncated sums / differences formed in TT format (x = xa + xb, mean-subtracted
            # data ...): every bond, the last one included, is over-parameterised in a way no single core shows
            Xa = rng.standard_normal(X.shape)
            x = tt.TT(Xa.reshape(dims + [m] + [1] * (nd + 1))) + tt.TT((X - Xa).reshape(dims + [m] + [1] * (nd + 1)))
            if rng.random() < 0.5:
                Ya = rng.standard_normal(Y.shape)
                y = tt.TT(Ya.reshape(dims + [m] + [1] * (nd + 1))) + tt.TT((Y - Ya).reshape(dims + [m] + [1] * (nd + 1)))
            label += '_inflated_ranks'
            if thr == 0.0:
                thr = 1e-10
        if rng.random() < 0.2:
            # cores of different dtypes in one train: real spatial structures times complex temporal coefficients (phases on the
            # snapshot core only), or a complex weight on one spatial core of otherwise real data
            k = x.order - 1 if rng.random() < 0.6 else int(rng.integers(0, x.order))
            for t in ((x, y) if rng.random() < 0.5 else (x,)):
                ph = np.exp(1j * rng.uniform(0, 2 * np.pi, size=t.row_dims[k]))
                t.cores[k] = t.cores[k] * ph[None, :, None, None]
            label += '_mixed_core_dtypes'
    if tall:
        label += '_tall'
    if rng.random() < 0.15 and x.order >= 2:
        # data of large amplitude held in the canonical form other routines hand over: right-orthonormal cores, the whole norm (2^47..2^60
        # times the original) in the FIRST core - the snapshot core and everything derived from it is tiny in absolute terms
        with probe.oracle():
            amp = 2.0 ** int(rng.integers(47, 61))
            x, y = x.copy().ortho_right(), y.copy().ortho_right()
            x.cores[0] = x.cores[0] * amp
            y.cores[0] = y.cores[0] * amp
        label += '_large_amplitude_in_first_core'
    ctx.describe({'op': 'tdmd_exact/standard', 'dims': dims, 'snapshots': m, 'data': label, 'threshold': thr, 'ranks': x.ranks})
    call('tdmd.tdmd_exact', td.tdmd_exact, x, y, prop=P, refusals=(np.linalg.LinAlgError,), threshold=thr)
    call('tdmd.tdmd_standard', td.tdmd_standard, x, y, prop=P, refusals=(np.linalg.LinAlgError,), threshold=thr)
    if idx % 2 == 0 and x.order >= 2:
        # orthonormalisation flags off on input that already is in the required gauge (harness-side RQ of the last core)
        with probe.oracle():
            cores = [c.copy() for c in x.cores]
            r, mm = cores[-1].shape[0], cores[-1].shape[1]
            q, rr = np.linalg.qr(cores[-1].reshape(r, mm).T)  # last = rr^T q^T
            k = q.shape[1]
            cores[-1] = q.T.reshape(k, mm, 1, 1)
            cores[-2] = np.tensordot(cores[-2], rr.T, axes=([3], [0]))
            xg = tt.TT(cores)
            # a third representation: last core right-orthonormal, the spatial cores in a generic (non-orthonormal) gauge
            cs = [c.copy() for c in cores]
            for i in range(len(cs) - 2):
                r2 = cs[i].shape[3]
                g = rng.standard_normal((r2, r2)) + 2.0 * np.eye(r2)
                cs[i] = np.tensordot(cs[i], g, axes=([3], [0]))
                cs[i + 1] = np.tensordot(np.linalg.inv(g), cs[i + 1], axes=([1], [0]))
            xr = tt.TT(cs)
        # each sweep is switched off exactly where the input already is in that gauge - and ONLY there, so that the sweep that
        # stays switched on has real work to do: (F,F) both gauges hold; (F,T) TT-SVD output: spatial cores left-orthonormal, last
        # core carries the weights; (T,F) last core right-orthonormal, spatial cores generic
        for (xx, fl, fr) in [(xg, False, False), (x, False, True), (xr, True, False)]:
            if rng.random() < 0.7:
                for nm, fn in (('tdmd.tdmd_exact', td.tdmd_exact), ('tdmd.tdmd_standard', td.tdmd_standard)):
                    ok_, r_ = call(nm, fn, xx, y, prop=P, refusals=(np.linalg.LinAlgError,), threshold=thr, ortho_l=fl, ortho_r=fr)
                    if ok_ and rng.random() < 0.5:
                        # "the input tensor trains are not modified" - also not afterwards, when the caller edits the modes it was handed in place
                        with probe.oracle():
                            from ..dense import Snap
                            sx, sy = Snap(xx), Snap(y)
                            modes = r_[1]
                            for c_ in modes.cores:
                                if isinstance(c_, np.ndarray) and c_.flags.writeable and c_.dtype.kind in 'fc':
                                    c_ *= 0.5
                            dx, dy = sx.diff(), sy.diff()
                        ctx.check(nm, 'inputs_unchanged_when_the_returned_modes_are_edited_in_place', dx is None and dy is None, ['ortho_l=%s' % fl, 'ortho_r=%s' % fr],
                                  {'x': dx, 'y': dy} if (dx or dy) else None, prop=P)
                        if dx is not None or dy is not None:
                            return
    if idx < 3:
        ctx.sample({'workload': 'tdmd', 'spatial_dims': dims, 'snapshots': m, 'data': label, 'threshold': thr, 'tt_ranks_of_x': x.ranks})


WORKLOADS = [Workload('tdmd', w_tdmd, 300, 6000)]
REQUIRED = ['C17|tdmd.tdmd_exact:eigenvalues_equal_matrix_dmd', 'C17|tdmd.tdmd_standard:eigenvalues_equal_matrix_dmd', 'C17|tdmd.tdmd_exact:modes_are_a_consistent_tt',
            'C17|tdmd.tdmd_exact:exact_modes_are_eigenvectors_of_Y_pinvX', 'C17|tdmd.tdmd_standard:standard_modes_are_projected_dmd_modes',
            'C06|tdmd.tdmd_exact:argument_unchanged', 'C06|tdmd.tdmd_standard:argument_unchanged']
