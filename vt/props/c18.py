"""C18 - tensor-based EDMD matches matrix EDMD and treats index sets independently.  Deciding monitors: Amuset contract
(vt.monitors_tedmd) per index-set pair + driver clause batch == single (element-wise) + M3 on every returned TT."""
import numpy as np

from .. import gen, probe, monitors_tedmd, monitors_transform, monitors_basis
from ..dense import dense_b, tt_consistent
from ..drive import call
from ..shard import Workload
from ._common import arm_light
from . import c15

P = 'C18'
tt = None
te = None


def setup(ctx):
    global tt, te
    tt = arm_light(ctx)
    c15.tr = monitors_transform.install()
    monitors_basis.install()
    te = monitors_tedmd.install()


REVERSIBLE = {}


def data(rng):
    d, m = int(rng.integers(1, 4)), int(rng.integers(3, 10))
    REVERSIBLE.clear()
    if rng.random() < 0.12:
        # (nearly) reversible data: every transition a -> b comes with its reverse b' -> a', where a', b' are copies of a, b - exact,
        # perturbed in the 6th-9th digit, or stored in single precision.  Psi_x Psi_y^T is (nearly, not exactly) symmetric
        k = int(rng.integers(2, 5))
        A, B = rng.uniform(-1.5, 1.5, size=(d, k)), rng.uniform(-1.5, 1.5, size=(d, k))
        u = int(rng.integers(0, 3))
        if u == 0:
            A2, B2 = A.copy(), B.copy()
        elif u == 1:
            q = float(10 ** rng.uniform(-9, -5.5))
            A2, B2 = A * (1 + q * rng.standard_normal(A.shape)), B * (1 + q * rng.standard_normal(B.shape))
        else:
            A2, B2 = A.astype(np.float32).astype(float), B.astype(np.float32).astype(float)
        Z = np.concatenate([A, B, B2, A2], axis=1)
        m = 4 * k
        REVERSIBLE['pair'] = (np.concatenate([np.arange(0, k), np.arange(2 * k, 3 * k)]), np.concatenate([np.arange(k, 2 * k), np.arange(3 * k, 4 * k)]))
        bl = c15.rand_basis(rng, d)
        while len(bl) < 2:
            bl = c15.rand_basis(rng, d)
        return d, m, Z, bl
    Z = gen.data_matrix(rng, (d, m))
    if rng.random() < 0.3:  # a trajectory of a contracting linear map: slowly varying snapshots
        A = 0.9 * np.linalg.qr(rng.standard_normal((d, d)))[0]
        Z = np.stack([np.linalg.matrix_power(A, k) @ Z[:, 0] for k in range(m)], axis=1)
    bl = c15.rand_basis(rng, d)
    while len(bl) < 2 and not SINGLE_MODE:
        bl = c15.rand_basis(rng, d)
    if rng.random() < 0.1:
        d, m, Z, bl = c15.square_data_with_linear_functionals(rng, bl)
    return d, m, Z, bl


SINGLE_MODE = True  # a basis list with ONE mode (the transformed data tensor is the plain EDMD data matrix, a train of order 2) is admitted


def admissible(ctx, Z, bl, pairs):
    """the transformed data tensor (and its restriction to every x-index set) must not vanish identically: relative cuts are 0/0"""
    if monitors_transform.data_tensor_class(Z, bl) == 'zero' or any(monitors_transform.data_tensor_class(Z, bl, cols=a) == 'zero' for (a, b) in pairs):
        ctx.skip('amuset_data_tensor_zero')
        return False
    return True


def index_sets(rng, m):
    a, b = index_sets_(rng, m)
    if rng.random() < 0.12 and len(set(map(int, a))) == len(a) and len(set(map(int, b))) == len(b):
        # the same selections as boolean masks over the snapshots (what NumPy comparisons on a time axis produce): the k-th selected
        # x snapshot pairs with the k-th selected y snapshot
        ma, mb = np.zeros(m, dtype=bool), np.zeros(m, dtype=bool)
        ma[np.asarray(a, dtype=int)] = True
        mb[np.asarray(b, dtype=int)] = True
        return ma, mb
    if rng.random() < 0.1:
        t = [np.int32, np.uint8, np.int16, np.uint64][int(rng.integers(0, 4))]
        return np.asarray(a).astype(t), np.asarray(b).astype(t)
    return a, b


def as_ints(a):
    a = np.asarray(a)
    return [int(v) for v in (np.flatnonzero(a) if a.dtype == bool else a)]


def index_sets_(rng, m):
    if m >= 4 and rng.random() < 0.12:
        # a sorted bootstrap resample of lagged pairs: ascending index arrays with repeated snapshots (some repeated, as many left out:
        # the length may equal the span)
        lag = int(rng.integers(1, max(2, m // 3)))
        base = np.arange(0, m - lag)
        k = len(base)
        pick = np.sort(rng.choice(base, size=k, replace=True))
        if rng.random() < 0.5 and k >= 3:
            pick[0], pick[-1] = base[0], base[-1]
            pick = np.sort(pick)
        return pick, pick + lag
    k = int(rng.integers(0, 3))
    if k == 0:
        lag = int(rng.integers(1, max(2, m // 2)))
        return np.arange(0, m - lag), np.arange(lag, m)
    if k == 1:
        sz = int(rng.integers(2, m + 1))
        return rng.choice(m, size=sz, replace=False), rng.choice(m, size=sz, replace=False)
    return np.arange(m), np.arange(m)


def same_tensor(a, b):
    with probe.oracle():
        if not (tt_consistent(a)[0] and tt_consistent(b)[0]):
            return False
        A, B = dense_b(a), dense_b(b)
        if A.size == 0 or B.size == 0:
            return A.shape == B.shape
        return A.shape == B.shape and bool(np.allclose(A, B, rtol=1e-9, atol=1e-9 * max(1.0, float(np.max(np.abs(B))))))


def w_hosvd(ctx, rng, idx):
    d, m, Z, bl = data(rng)
    thr = [1e-8, 1e-10, 1e-2][int(rng.integers(0, 3))]
    npairs = int(rng.integers(1, 4))
    pairs = [index_sets(rng, m) for _ in range(npairs)]
    if 'pair' in REVERSIBLE:
        pairs[int(rng.integers(0, npairs))] = REVERSIBLE['pair']
    u = rng.random()
    if npairs > 1 and u < 0.35:
        # consecutive pairs sharing their x-index set (a lag scan over a fixed window: same array object or an equal copy),
        # a pair repeated verbatim, or x and y exchanged: what is kept from the previous pair must not leak into the next
        k = int(rng.integers(1, npairs))
        mode = int(rng.integers(0, 4))
        if mode == 0:
            pairs[k] = (pairs[k - 1][0], rng.permutation(pairs[k - 1][1]) if len(pairs[k - 1][1]) == len(pairs[k - 1][0]) else pairs[k - 1][1])
        elif mode == 1:
            pairs[k] = (np.array(pairs[k - 1][0], copy=True), np.array(pairs[k - 1][1], copy=True)[::-1].copy())
        elif mode == 2:
            pairs[k] = pairs[k - 1]
        else:
            pairs[k] = (pairs[k - 1][1], pairs[k - 1][0])
    if not admissible(ctx, Z, bl, pairs):
        return
    xs, ys = [p[0] for p in pairs], [p[1] for p in pairs]
    ctx.describe({'op': 'amuset_hosvd', 'd': d, 'm': m, 'modes': [[type(f).__name__ for f in fl] for fl in bl], 'threshold': thr, 'pairs': [[as_ints(a), as_ints(b)] for a, b in pairs]})
    okb, rb = call('tedmd.amuset_hosvd', te.amuset_hosvd, Z, xs, ys, bl, prop=P, tags=['batch'], refusals=(np.linalg.LinAlgError,), threshold=thr)
    singles = []
    for (a, b) in pairs:
        oks, rs = call('tedmd.amuset_hosvd', te.amuset_hosvd, Z, a, b, bl, prop=P, tags=['single'], refusals=(np.linalg.LinAlgError,), threshold=thr)
        singles.append(rs if oks else None)
    if okb and npairs > 1 and all(s is not None for s in singles):
        lam_b, ten_b = rb[0], rb[1]
        good, bad = True, None
        for k in range(npairs):
            lk, tk = np.asarray(lam_b[k]), ten_b[k]
            ls, ts = np.asarray(singles[k][0]), singles[k][1]
            if lk.shape != ls.shape or not np.allclose(lk, ls, rtol=1e-9, atol=1e-9) or not same_tensor(tk, ts):
                good, bad = False, k
                break
        distinct = len(set(id(t) for t in ten_b)) == npairs
        ctx.check('tedmd.amuset_hosvd', 'batch_equals_single_calls', good, ['pair=%s' % ('first' if bad == 0 else 'later')] if not good else [], {'first_differing_pair': bad, 'pairs': npairs}, prop=P)
        ctx.check('tedmd.amuset_hosvd', 'batch_results_are_distinct_objects', distinct, [], {'pairs': npairs}, prop=P)
    if idx % 4 == 0:  # optional outputs
        a, b = pairs[0]
        call('tedmd.amuset_hosvd', te.amuset_hosvd, Z, a, b, bl, prop=P, tags=['single'], refusals=(np.linalg.LinAlgError,), threshold=thr, ef_tf=True, st_tf=bool(rng.integers(0, 2)))
    if idx < 3:
        ctx.sample({'workload': 'hosvd', 'state_dim': d, 'snapshots': m, 'modes': [[type(f).__name__ for f in fl] for fl in bl], 'threshold': thr, 'index_set_pairs': npairs})


def w_hocur(ctx, rng, idx):
    d, m, Z, bl = data(rng)
    bl = c15.array_capable(rng, bl, d)
    npairs = int(rng.integers(1, 3))
    pairs = [index_sets(rng, m) for _ in range(npairs)]
    if 'pair' in REVERSIBLE:
        pairs[int(rng.integers(0, npairs))] = REVERSIBLE['pair']
    if not admissible(ctx, Z, bl, pairs) or monitors_transform.data_tensor_class(Z, bl) != 'regular':
        ctx.skip('amuset_hocur_data_tensor_without_spectral_gap')
        return
    xs, ys = [p[0] for p in pairs], [p[1] for p in pairs]
    ctx.describe({'op': 'amuset_hocur', 'd': d, 'm': m, 'modes': [[type(f).__name__ for f in fl] for fl in bl], 'pairs': npairs})
    mult = int(rng.integers(4, 11))
    okb, rb = call('tedmd.amuset_hocur', te.amuset_hocur, Z, xs if npairs > 1 else xs[0], ys if npairs > 1 else ys[0], bl, prop=P, tags=['batch' if npairs > 1 else 'single'],
                   refusals=(np.linalg.LinAlgError,), refusal_pred=monitors_transform.hocur_gave_up_on_zero_block, multiplier=mult)
    if okb and npairs > 1:
        ctx.check('tedmd.amuset_hocur', 'batch_results_are_distinct_objects', len(set(id(t) for t in rb[1])) == npairs, [], {'pairs': npairs}, prop=P)
        # batch == single calls (the cross approximation starts from a deterministic column choice, so both runs are comparable)
        good, bad = True, None
        for k in range(npairs):
            oks, rs = call('tedmd.amuset_hocur', te.amuset_hocur, Z, xs[k], ys[k], bl, prop=P, tags=['single'], refusals=(np.linalg.LinAlgError,), refusal_pred=monitors_transform.hocur_gave_up_on_zero_block, multiplier=mult)
            if not oks:
                good = None
                break
            lk, ls = np.asarray(rb[0][k]), np.asarray(rs[0])
            if lk.shape != ls.shape or not np.allclose(lk, ls, rtol=1e-7, atol=1e-7) or not same_tensor(rb[1][k], rs[1]):
                good, bad = False, k
                break
        if good is not None:
            ctx.check('tedmd.amuset_hocur', 'batch_equals_single_calls', good, ['pair=%s' % ('first' if bad == 0 else 'later')] if not good else [], {'first_differing_pair': bad, 'pairs': npairs}, prop=P)


def w_failpoint(ctx, rng, idx):
    """the same workload with the default SVD driver failing (LinAlgError injected at the LAPACK boundary before the input is touched):
    utils.truncated_svd must take its gesvd fallback and every clause must still hold"""
    probe.S.failpoint_svd = True
    try:
        w_hosvd(ctx, rng, idx + 10 ** 6)
    finally:
        probe.S.failpoint_svd = False


WORKLOADS = [
    Workload('hosvd', w_hosvd, 240, 5000),
    Workload('hocur', w_hocur, 120, 2500),
    Workload('failpoint', w_failpoint, 30, 500),
]
REQUIRED = ['C18|tedmd.amuset_hosvd:eigenvalues_equal_matrix_edmd', 'C18|tedmd.amuset_hosvd:eigentensors_satisfy_eigen_equation', 'C18|tedmd.amuset_hosvd:ordered_by_distance_to_one',
            'C18|tedmd.amuset_hosvd:batch_equals_single_calls', 'C18|tedmd.amuset_hosvd:batch_results_are_distinct_objects', 'C18|tedmd.amuset_hocur:eigenvalues_equal_matrix_edmd',
            'C18|tedmd.amuset_hocur:eigentensors_satisfy_eigen_equation', 'C06|tedmd.amuset_hosvd:returned_tt_consistent', 'C06|tedmd.amuset_hocur:returned_tt_consistent']
