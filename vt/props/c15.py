"""C15 - transformed data tensors equal the tensor of basis-function products.  Deciding monitors: contracts in
vt.monitors_transform (explicit loop over multi-indices and snapshots)."""
import numpy as np

from .. import gen, probe, monitors_transform, monitors_basis
from ..drive import call
from ..shard import Workload
from ._common import arm_light

P = 'C15'
tr = None
SCALAR_FUNS = [('one', lambda t: 1), ('id', lambda t: t), ('sq', lambda t: t ** 2), ('sin', lambda t: np.sin(t)), ('cos', lambda t: np.cos(t)), ('gauss', lambda t: np.exp(-t ** 2)),
               # user lambdas whose return TYPE depends on the argument (an int on one branch, a float on the other)
               ('hinge', lambda t: max(0, t)), ('relu0', lambda t: 0 if t < 0 else t), ('step', lambda t: 1 if t > 0.3 else 0.25 * t),
               # functions of ONE real variable written with reductions (norms, kernel sums, dot products): valid for the scalar arguments
               # the documented construction passes, but an array argument is reduced to a single number
               ('radial', lambda t: np.exp(-np.linalg.norm(t - 0.3) ** 2)), ('abs_norm', lambda t: np.linalg.norm(t)), ('dot', lambda t: np.dot(t, t)),
               ('kernel_sum', lambda t: np.sum(np.exp(-4 * (t - KERNEL_CENTRES) ** 2)) / len(KERNEL_CENTRES)), ('max_part', lambda t: np.max(t * np.array([0.5, -0.25])))]
KERNEL_CENTRES = np.array([-0.7, -0.2, 0.1, 0.45, 0.9])


def point_only_function():
    """a user-defined basis function (subclass of the library's Function) written for single points: it reduces over the
    coordinates of its argument.  The library evaluates basis functions snapshot by snapshot, which is all such a function supports."""
    class RadialPoint(tr.Function):
        def __init__(self, scale, dimension=None):
            super(RadialPoint, self).__init__(dimension)
            self.scale = scale

        def __call__(self, t):
            return float(np.exp(-self.scale * np.sum(np.asarray(t, dtype=float) ** 2)))

        def partial(self, t, direction):
            return -2.0 * self.scale * t[direction] * self(t)

        def partial2(self, t, direction1, direction2):
            return (4.0 * self.scale ** 2 * t[direction1] * t[direction2] - (2.0 * self.scale if direction1 == direction2 else 0.0)) * self(t)

        def gradient(self, t):
            return np.array([self.partial(t, k) for k in range(len(t))])

        def hessian(self, t):
            return np.array([[self.partial2(t, i, j) for j in range(len(t))] for i in range(len(t))])
    return RadialPoint


def mixed_reduction_function():
    """user-defined functions of a POINT that combine one coordinate with a reduction over all coordinates written without an axis
    (direction cosine t[i] / |t|, centred coordinate t[i] - mean(t)): handed a whole d x m data matrix they return m numbers - with the
    reduction taken over all snapshots.  The documented constructions evaluate snapshot by snapshot."""
    class MixedReduction(tr.Function):
        def __init__(self, index, kind, dimension=None):
            super(MixedReduction, self).__init__(dimension)
            self.index, self.kind = index, kind

        def __call__(self, t):
            return t[self.index] / (1.0 + np.linalg.norm(t)) if self.kind == 0 else t[self.index] - np.mean(t)

        def partial(self, t, direction):
            raise NotImplementedError

        def partial2(self, t, direction1, direction2):
            raise NotImplementedError

        def gradient(self, t):
            raise NotImplementedError

        def hessian(self, t):
            raise NotImplementedError
    return MixedReduction


def linear_functional():
    """a user-defined basis function f(t) = <t, c> written with np.dot(t, c) / t @ c (vector on the right): for a single point it is the inner
    product; handed a whole d x m data matrix with m == d it would silently return data @ c - a vector of the expected length m with
    other values.  The documented constructions evaluate snapshot by snapshot."""
    class LinearFunctional(tr.Function):
        def __init__(self, c, dimension=None):
            super(LinearFunctional, self).__init__(dimension)
            self.c = np.asarray(c, dtype=float)

        def __call__(self, t):
            return np.dot(t, self.c)

        def partial(self, t, direction):
            return self.c[direction]

        def partial2(self, t, direction1, direction2):
            return 0.0

        def gradient(self, t):
            return self.c.copy()

        def hessian(self, t):
            return np.zeros((len(self.c), len(self.c)))
    return LinearFunctional


def square_data_with_linear_functionals(rng, bl):
    """as many snapshots as coordinates (d == m, 3..6) and a basis in which some functions are linear functionals of the state"""
    d = int(rng.integers(3, 7))
    X = gen.data_matrix(rng, (d, d))
    LF = linear_functional()
    bl = [[LF(rng.standard_normal(d)) if rng.random() < 0.6 else tr.Identity(int(rng.integers(0, d))) for _ in range(int(rng.integers(1, 4)))] for _ in range(int(rng.integers(1, 4)))]
    if not any(isinstance(f, LF) for fl in bl for f in fl):
        bl[0][0] = LF(rng.standard_normal(d))
    return d, d, X, bl


def setup(ctx):
    global tr
    arm_light(ctx)
    tr = monitors_transform.install()
    monitors_basis.install()  # C14 postconditions stay armed: these routines evaluate the basis functions


def rand_function(rng, d):
    i = int(rng.integers(0, d))
    k = int(rng.integers(0, 10))
    if k == 8:  # box functions (overlapping boxes, boxes on different coordinates)
        a = float(rng.uniform(-1.5, 0.5))
        return tr.IndicatorFunction(i, a, a + float(rng.uniform(0.5, 2.5)))
    if k == 9:
        if rng.random() < 0.4:
            return mixed_reduction_function()(i, int(rng.integers(0, 2)))
        return point_only_function()(float(rng.uniform(0.2, 1.5)))
    if k == 0:
        return tr.ConstantFunction(i)
    if k == 1:
        return tr.Identity(i)
    if k == 2:
        return tr.Monomial(i, int(rng.integers(0, 4)))
    if k == 3:
        return tr.Legendre(i, int(rng.integers(0, 4)), 2.0)
    if k == 4:
        return tr.Sin(i, float(rng.uniform(0.5, 2)))
    if k == 5:
        return tr.Cos(i, float(rng.uniform(0.5, 2)))
    if k == 6:
        return tr.GaussFunction(i, float(rng.uniform(-1, 1)), float(rng.uniform(0.3, 2)))
    return tr.PeriodicGaussFunction(i, float(rng.uniform(-1, 1)), float(rng.uniform(0.3, 2)))


def array_capable(rng, bl, d):
    """hocur evaluates basis functions on the whole data matrix: point-only user functions are replaced (in place, keeping shared
    objects shared) for the cross-approximation workloads"""
    repl = {}
    for fl in bl:
        for k, f in enumerate(fl):
            if type(f).__name__ in ('RadialPoint', 'LinearFunctional', 'MixedReduction'):
                if id(f) not in repl:
                    repl[id(f)] = tr.GaussFunction(int(rng.integers(0, d)), float(rng.uniform(-1, 1)), float(rng.uniform(0.3, 2))) if type(f).__name__ == 'RadialPoint' else \
                        tr.Identity(int(rng.integers(0, d)))
                fl[k] = repl[id(f)]
    return bl


def rand_basis(rng, d, duplicates=False):
    p = int(rng.integers(1, 4))
    bl = []
    for _ in range(p):
        n = int(rng.integers(1, 4))
        fl = [rand_function(rng, d) for _ in range(n)]
        if rng.random() < 0.1:  # a mode made of box functions only
            fl = [tr.IndicatorFunction(int(rng.integers(0, d)), a, a + float(rng.uniform(0.5, 2.5))) for a in rng.uniform(-1.5, 0.5, size=n)]
        if duplicates and n > 1 and rng.random() < 0.5:
            fl[-1] = fl[0]
        bl.append(fl)
    if p > 1 and rng.random() < 0.15:
        # the very same function OBJECTS serve several modes (basis_list = [B0, B1, B0], [B] * p): perfectly legal
        k = int(rng.integers(1, p))
        bl[k] = bl[0] if rng.random() < 0.5 else [bl[0][int(rng.integers(0, len(bl[0])))] for _ in range(len(bl[k]))]
    return bl


def w_basis(ctx, rng, idx):
    d, m = int(rng.integers(1, 4)), int(rng.integers(1, 7))
    x = gen.data_matrix(rng, (d, m))
    bl = rand_basis(rng, d, duplicates=True)
    if rng.random() < 0.08:
        d, m, x, bl = square_data_with_linear_functionals(rng, bl)
    ctx.describe({'op': 'basis_decomposition/gram', 'd': d, 'm': m, 'modes': [[type(f).__name__ for f in fl] for fl in bl]})
    ok_, psi_ = call('transform.basis_decomposition', tr.basis_decomposition, x, bl, prop=P)
    if ok_ and rng.random() < 0.3:
        # the owner of a transformed data tensor edits its cores in place (per-snapshot weights on the last core, a rescaled first core):
        # its own object - later constructions, for the same number of snapshots in particular, must not know
        with probe.oracle():
            for c_ in psi_.cores:
                if isinstance(c_, np.ndarray) and c_.flags.writeable and c_.dtype.kind == 'f':
                    c_ *= float(rng.uniform(0.2, 0.7))
            if psi_.cores[-1].flags.writeable and psi_.cores[-1].dtype.kind == 'f':
                psi_.cores[-1][...] = psi_.cores[-1] * rng.uniform(0.5, 2.0, size=psi_.cores[-1].shape)
        x3 = gen.data_matrix(rng, (d, m))
        call('transform.basis_decomposition', tr.basis_decomposition, x3, bl, prop=P, tags=['after_caller_edited_earlier_result'])
        phi_ = [f for (_, f) in SCALAR_FUNS[:6]][:int(rng.integers(1, 4))]
        call('transform.coordinate_major', tr.coordinate_major, x3, phi_, prop=P, tags=['after_caller_edited_earlier_result'])
        call('transform.function_major', tr.function_major, x3, phi_, prop=P, tags=['after_caller_edited_earlier_result'])
    for k in range(len(bl)):
        call('transform.basis_decomposition', tr.basis_decomposition, x, bl, prop=P, single_core=k)
    m2 = int(rng.integers(1, 7))
    x2 = gen.data_matrix(rng, (d, m2))
    call('transform.gram', tr.gram, x, x2, bl, prop=P)
    call('transform.gram', tr.gram, x, x, bl, prop=P)
    if m >= 2:
        # two equally shaped data sets that are views into ONE buffer (time-lagged slices of a trajectory, two halves of a data set):
        # they alias memory but have different contents
        lag = int(rng.integers(1, m))
        call('transform.gram', tr.gram, x[:, :-lag], x[:, lag:], bl, prop=P, tags=['views_of_one_buffer'])
        big = np.concatenate([x, gen.data_matrix(rng, (d, m))], axis=1)
        call('transform.gram', tr.gram, big[:, :m], big[:, m:], bl, prop=P, tags=['views_of_one_buffer'])
    if idx < 3:
        ctx.sample({'workload': 'basis', 'state_dim': d, 'snapshots': m, 'modes': [[type(f).__name__ for f in fl] for fl in bl]})


def w_major(ctx, rng, idx):
    d, m = int(rng.integers(1, 4)), int(rng.integers(1, 7))
    x = gen.data_matrix(rng, (d, m))
    p = int(rng.integers(1, 4))
    sel = [SCALAR_FUNS[int(rng.integers(0, len(SCALAR_FUNS)))] for _ in range(p)]
    phi = [f for (_, f) in sel]
    ctx.describe({'op': 'coordinate_major/function_major', 'd': d, 'm': m, 'functions': [n for (n, _) in sel]})
    call('transform.coordinate_major', tr.coordinate_major, x, phi, prop=P)
    for k in range(d):
        call('transform.coordinate_major', tr.coordinate_major, x, phi, prop=P, single_core=k)
    for one in (True, False):
        call('transform.function_major', tr.function_major, x, phi, prop=P, add_one=one)
        for k in range(p):
            call('transform.function_major', tr.function_major, x, phi, prop=P, add_one=one, single_core=k)


def w_hocur(ctx, rng, idx):
    d, m = int(rng.integers(1, 4)), int(rng.integers(1, 7))
    x = gen.data_matrix(rng, (d, m))
    bl = array_capable(rng, rand_basis(rng, d, duplicates=(rng.random() < 0.3)), d)
    if idx % 8 == 3:  # data close to a common zero of odd basis functions: every entry of the transformed tensor is tiny in
        x = x * float(10 ** rng.uniform(-7, -3))  # absolute terms (nothing in the statement depends on the scale of the data)
        odd = [lambda i: tr.Identity(i), lambda i: tr.Sin(i, float(rng.uniform(0.5, 2))), lambda i: tr.Monomial(i, int(rng.integers(1, 4)))]
        bl = [[odd[int(rng.integers(0, 3))](int(rng.integers(0, d))) for _ in range(int(rng.integers(1, 4)))] for _ in range(int(rng.integers(2, 4)))]
    if len(bl) < 2 and rng.random() < 0.5:  # (a single mode - an order-2 train - is admitted as it is half of the time)
        bl.append([rand_function(rng, d) for _ in range(int(rng.integers(1, 4)))])
    bl = array_capable(rng, bl, d)
    cls = monitors_transform.data_tensor_class(x, bl)
    if cls != 'regular':  # zero tensor / no spectral gap: the cross approximation's rank decisions are not determined by the data
        ctx.skip('hocur_data_tensor_' + cls)
        return
    rep, mult = int(rng.integers(1, 3)), int(rng.integers(3, 11))
    rk = m + int(rng.integers(0, 3))
    if idx % 4 == 1:
        # many snapshots of a trajectory that rests at / returns to its initial state (the leading snapshots repeat), few basis functions,
        # and exactly the ranks the data tensor has: the surplus candidate columns (`multiplier`) are what makes the result exact
        m = int(rng.integers(6, 15))
        x = np.array(gen.data_matrix(rng, (d, m)), dtype=float)
        q = int(rng.integers(2, 5))
        x[:, :q] = x[:, [0]] if rng.random() < 0.6 else x[:, [0, 1] * 2][:, :q]
        cls = monitors_transform.data_tensor_class(x, bl)
        if cls != 'regular':
            ctx.skip('hocur_data_tensor_' + cls)
            return
        tr_ranks = monitors_transform.true_ranks(x, bl)
        rk = max(tr_ranks) if rng.random() < 0.5 else [1] + [int(r) for r in tr_ranks] + [1]
        ctx.describe({'op': 'hocur (repeated leading snapshots, ranks = true ranks)', 'd': d, 'm': m, 'repeated': q, 'modes': [[type(f).__name__ for f in fl] for fl in bl], 'ranks': rk, 'repeats': rep, 'multiplier': mult})
        call('transform.hocur', tr.hocur, x, bl, rk, prop=P, refusals=(np.linalg.LinAlgError,), refusal_pred=monitors_transform.hocur_gave_up_on_zero_block, repeats=rep, multiplier=mult, progress=False)
        return
    ctx.describe({'op': 'hocur', 'd': d, 'm': m, 'modes': [[type(f).__name__ for f in fl] for fl in bl], 'ranks': rk, 'repeats': rep, 'multiplier': mult})
    if rng.random() < 0.5:  # the documented list form (one rank per bond), sometimes generous, sometimes per-bond different
        p = len(bl)
        rk = [1] + [m + int(rng.integers(0, 6)) for _ in range(p)] + [1]
        mm = m + 3  # (largest snapshot count the list will serve)
        n = [len(fl) for fl in bl]
        for k in range(p - 1, 0, -1):  # admissible rank vectors only: r_k <= n_k * r_{k+1} (a rank request no TT can have makes the
            rk[k] = min(rk[k], n[k] * min(rk[k + 1], mm))  # random initial column choice index out of range - not asserted)
        ctx.describe({'op': 'hocur', 'd': d, 'm': m, 'modes': [[type(f).__name__ for f in fl] for fl in bl], 'ranks': list(rk), 'repeats': rep, 'multiplier': mult})
        call('transform.hocur', tr.hocur, x, bl, rk, prop=P, refusals=(np.linalg.LinAlgError,), refusal_pred=monitors_transform.hocur_gave_up_on_zero_block, repeats=rep, multiplier=mult, progress=False)
        # the same list object serves a second data set with more snapshots (a caller looping over data sets)
        m2 = m + int(rng.integers(1, 4))
        x2 = gen.data_matrix(rng, (d, m2))
        if monitors_transform.data_tensor_class(x2, bl) != 'regular':
            return
        call('transform.hocur', tr.hocur, x2, bl, rk, prop=P, refusals=(np.linalg.LinAlgError,), refusal_pred=monitors_transform.hocur_gave_up_on_zero_block, repeats=rep, multiplier=mult, progress=False)
        return
    call('transform.hocur', tr.hocur, x, bl, rk, prop=P, refusals=(np.linalg.LinAlgError,), refusal_pred=monitors_transform.hocur_gave_up_on_zero_block, repeats=rep, multiplier=mult, progress=False)


def w_hocur_many(ctx, rng, idx):
    """HOCUR on transformed data tensors far beyond any dense array (12-64 modes, up to 4 functions each: 4^34, 2^64 ... entries): true
    ranks and spectral gaps from m x m Gram matrices, the result judged on sampled fibres"""
    p = [12, 20, 34, 41, 48, 64, 33, 22][idx % 8]
    d = int(rng.integers(1, 4))
    m = int(rng.integers(2, 6))
    nmax = 4 if p <= 41 else (3 if p <= 48 else 2)
    x = rng.uniform(-1.0, 1.0, size=(d, m))
    def fn():
        i = int(rng.integers(0, d))
        k = int(rng.integers(0, 4))
        return [tr.Identity(i), tr.Sin(i, float(rng.uniform(0.5, 2))), tr.Cos(i, float(rng.uniform(0.5, 2))), tr.ConstantFunction(i)][k]
    bl = [[fn() for _ in range(int(rng.integers(2, nmax + 1)))] for _ in range(p)]
    rk = m + int(rng.integers(0, 3))
    rep, mult = int(rng.integers(1, 3)), int(rng.integers(3, 11))
    ctx.describe({'op': 'hocur (many modes)', 'd': d, 'm': m, 'modes': p, 'functions_per_mode': [len(f) for f in bl], 'ranks': rk, 'repeats': rep, 'multiplier': mult})
    call('transform.hocur', tr.hocur, x, bl, rk, prop=P, refusals=(np.linalg.LinAlgError,), refusal_pred=monitors_transform.hocur_gave_up_on_zero_block, repeats=rep, multiplier=mult, progress=False)


WORKLOADS = [
    Workload('hocur_many_modes', w_hocur_many, 3, 24),
    Workload('basis', w_basis, 200, 4000),
    Workload('major', w_major, 150, 3000),
    Workload('hocur', w_hocur, 200, 4000),
]
REQUIRED = ['C15|transform.basis_decomposition:entries_are_products_of_basis_functions', 'C15|transform.basis_decomposition:single_core_is_core_of_the_train',
            'C15|transform.coordinate_major:entries_are_products_of_basis_functions', 'C15|transform.coordinate_major:single_core_is_core_of_the_train',
            'C15|transform.function_major:entries_are_products_of_basis_functions', 'C15|transform.function_major:single_core_is_core_of_the_train',
            'C15|transform.gram:inner_products_of_transformed_snapshots', 'C15|transform.hocur:reproduces_tensor_when_ranks_suffice']
