"""Process history before the first case of a shard.  Every shard is a fresh interpreter; what the library did EARLIER in the same
process must not matter for any later call (no property statement has a clause "... unless a single-precision / complex / real call
came first").  Half of the shards therefore start with a fixed battery of library calls on small operands of ONE dtype class
(shard % 4: 0 nothing, 1 float32, 2 complex64, 3 complex128 - and a double-precision real battery for the solver entry points in
flavour 1 and 2, so that 'real first, complex later' and 'complex first, real later' both occur).  The battery runs unmonitored
(probe.oracle): it only creates history; its own results are not judged."""
import numpy as np

from .. import probe


def _safe(fn, *a, **kw):
    try:
        return fn(*a, **kw)
    except BaseException as e:  # noqa  (history only)
        if isinstance(e, (KeyboardInterrupt, SystemExit)):
            raise
        return None


def run(ctx, shard):
    flavour = shard % 4
    ctx.events['process_history_flavour:%d' % flavour] += 1
    if flavour == 0:
        return
    import scikit_tt.tensor_train as tt
    dt = {1: np.float32, 2: np.complex64, 3: np.complex128}[flavour]
    rs = np.random.default_rng(1000 + shard)

    def rnd(shape, dtype=dt):
        x = rs.standard_normal(shape)
        if np.dtype(dtype).kind == 'c':
            x = x + 1j * rs.standard_normal(shape)
        return x.astype(dtype)

    with probe.oracle():
        v = tt.TT([rnd((1, 2, 1, 2)), rnd((2, 3, 1, 2)), rnd((2, 2, 1, 1))])
        A = tt.TT([rnd((1, 2, 2, 2)), rnd((2, 3, 3, 2)), rnd((2, 2, 2, 1))])
        for f in (lambda: v.copy().ortho_left(), lambda: v.copy().ortho_right(), lambda: v.copy().ortho(threshold=1e-3, max_rank=2), lambda: v.svd(1), lambda: v.svd(2),
                  lambda: v.pinv(1), lambda: v.pinv(2), lambda: v.norm(), lambda: v.norm(p=1), lambda: (A @ v).full(), lambda: (v + v).ortho(), lambda: A.transpose(conjugate=True) @ A,
                  lambda: tt.TT(v.full(), threshold=1e-6), lambda: tt.TT(A.full()), lambda: v.tensordot(v, 1, mode='last-first'), lambda: A.matricize(), lambda: v.diag(v, [0]),
                  lambda: tt.eye([2, 3, 2]) + A, lambda: v.tt2qtt([[2], [3], [2]], [[1], [1], [1]]), lambda: v.squeeze()):
            _safe(f)
        # the solver entry points: the flavour's dtype, and (flavours 1, 2) plain double precision real operands as well
        for dtype in ([dt, np.float64] if flavour in (1, 2) else [dt]):
            cs = [rnd((1, 2, 2, 2), dtype), rnd((2, 2, 2, 1), dtype)]
            B = tt.TT(cs)
            H = B.transpose(conjugate=True) @ B + tt.eye([2, 2]).__mul__(2.0) if hasattr(B, 'transpose') else B
            H = _safe(lambda: B.transpose(conjugate=True) @ B + 2.0 * tt.eye([2, 2]))
            b = tt.TT([rnd((1, 2, 1, 2), dtype), rnd((2, 2, 1, 1), dtype)])
            if H is None:
                continue
            from scikit_tt.solvers import sle, evp, ode
            for solver in ('solve', 'lu'):
                _safe(lambda: sle.als(H, b.copy(), b, solver=solver, repeats=1))
                _safe(lambda: sle.mals(H, b.copy(), b, solver=solver, repeats=1, max_rank=4))
            for solver in ('eig', 'eigh', 'eigs'):
                _safe(lambda: evp.als(H, b.copy(), number_ev=1, repeats=1, solver=solver))
            _safe(lambda: evp.power_method(H, b.copy(), repeats=2))
            _safe(lambda: ode.explicit_euler(H, b.copy(), [0.01, 0.01], progress=False))
            _safe(lambda: ode.implicit_euler(H, b.copy(), b.copy(), [0.01], progress=False))
            _safe(lambda: ode.tdvp1site(H, b.copy().ortho_right(), 0.01, 1))
            _safe(lambda: ode.krylov(H, b.copy(), 3, 0.01))
