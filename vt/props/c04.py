"""C04 - rank truncation is bounded in rank and in error.  Deciding monitors: the Init contract (TT-SVD of a full
array) and the truncating branch of the Ortho* contracts (rank bound always; quasi-optimality bound when the monitor
measures the opposite side as orthonormal; threshold rule for construction from arrays)."""
import numpy as np

from .. import gen, probe
from ..drive import call, refused_then_used
from ..shard import Workload
from ._common import arm_tt
from . import ambient

P = 'C04'
tt = None


def setup(ctx):
    global tt
    tt = arm_tt(ctx)
    gen.LAYOUT = 0.15
    gen.ALIAS = 0.12
    gen.PROV = 0.25  # a quarter of the generated operands come with a history of library operations (gen.provenance)


def tensor(rng):
    d = int(rng.integers(1, 6))
    if rng.random() < 0.3:
        d = int(rng.integers(1, 3))
    rows = gen.rand_dims(rng, d, 4, p_one=0.15)
    cols = [1] * d if rng.random() < 0.6 else gen.rand_dims(rng, d, 3, p_one=0.3)
    while np.prod(rows) * np.prod(cols) > 6000:
        i = int(rng.integers(0, d))
        rows[i] = max(1, rows[i] - 1)
        cols[i] = 1
    cplx = bool(rng.integers(0, 2))
    k = int(rng.integers(0, 4))
    shape = list(rows) + list(cols)
    if k == 0:
        x = gen.randn(rng, shape, cplx)
        kind = 'flat_spectrum'
    elif k == 1:
        x = gen.low_rank_tensor(rng, rows, cols, gen.rand_ranks(rng, d, 3, p_one=0.2), noise=1e-3, cplx=cplx)
        kind = 'lowrank_plus_noise'
    elif k == 2:
        x = gen.low_rank_tensor(rng, rows, cols, [1] + [4] * (d - 1) + [1], cplx=cplx, decay=float(rng.uniform(0.05, 0.6)))
        kind = 'geometric_decay'
    else:
        x = gen.low_rank_tensor(rng, rows, cols, gen.rand_ranks(rng, d, 2, p_one=0.3), cplx=cplx)
        kind = 'rank_deficient'
    return x, rows, cols, kind


def w_from_array(ctx, rng, idx):
    x, rows, cols, kind = tensor(rng)
    d = len(rows)
    if rng.random() < 0.03:
        x = np.zeros_like(x)  # the zero tensor (a vanishing residual, an empty data set): every bound of the statement is 0 for it
        kind = 'zero_tensor'
    if not np.any(x) and kind != 'zero_tensor':
        return
    if rng.random() < 0.06:
        # arrays whose entries are all tiny or all huge (1e-170..1e-155, 1e145..1e150): normal doubles, but their squares are not
        x = x * (10.0 ** float(rng.uniform(-170, -155)) if rng.random() < 0.7 else 10.0 ** float(rng.uniform(145, 150)))
        kind += '_extreme_scale'
    mr = int(rng.integers(1, 5))
    thr = float(10 ** rng.uniform(-8, np.log10(0.5)))
    ctx.describe({'op': 'TT(ndarray)', 'shape': list(x.shape), 'kind': kind, 'max_rank': mr, 'threshold': thr})
    call('TT.__init__', lambda: tt.TT(x), prop=P)
    call('TT.__init__', lambda: tt.TT(x, max_rank=mr), prop=P)
    call('TT.__init__', lambda: tt.TT(x, threshold=thr), prop=P)
    call('TT.__init__', lambda: tt.TT(x, threshold=thr, max_rank=mr), prop=P)
    call('TT.__init__', lambda: tt.TT(x, threshold=0, max_rank=np.inf), prop=P)
    if idx < 3:
        ctx.sample({'workload': 'from_array', 'shape': list(x.shape), 'kind': kind, 'max_rank': mr, 'threshold': thr})


def w_ortho_trunc(ctx, rng, idx):
    x, rows, cols, kind = tensor(rng)
    d = len(rows)
    with probe.oracle():
        base = tt.TT(x)
        # an over-parameterised / non-orthonormal representation of the same tensor
        cores = [c.copy() for c in base.cores]
        for i in range(d - 1):
            r = cores[i].shape[3]
            g = gen.randn(rng, (r, r + int(rng.integers(0, 2))), np.iscomplexobj(x))
            cores[i] = np.tensordot(cores[i], g, axes=([3], [0]))
            cores[i + 1] = np.tensordot(np.linalg.pinv(g), cores[i + 1], axes=([1], [0]))

    if rng.random() < 0.2:
        # trains in which one ndarray object sits at several positions (product states [site] * d, identical end caps around a bulk,
        # homogeneous chains), some of them with Fortran-ordered cores: the documented way to write such tensors; a sweep that lets
        # LAPACK work in the buffer of one position changes the others
        d = int(rng.integers(2, 5))
        n = int(rng.integers(2, 4))
        cplx = bool(np.iscomplexobj(x))
        rows, cols = [n] * d, [1] * d
        u = int(rng.integers(0, 3))
        if u == 0:
            site = gen.randn(rng, (1, n, 1, 1), cplx)
            cores = [site] * d
        elif u == 1 and d >= 3:
            r = int(rng.integers(1, 4))
            cap = gen.randn(rng, (1, n, 1, 1), cplx)
            cores = [cap, gen.randn(rng, (1, n, 1, r), cplx)] + [gen.randn(rng, (r, n, 1, r), cplx) for _ in range(d - 4)] + [gen.randn(rng, (r, n, 1, 1), cplx), cap]
            cores = cores if len(cores) == d else [cap] * d
        else:
            r = int(rng.integers(1, 3))
            cores = gen.alias_equal_shapes(gen.rand_cores(rng, rows, cols, [1] + [r] * (d - 1) + [1], cplx))
        if rng.random() < 0.4:
            seen = {}
            for c in cores:
                seen.setdefault(id(c), np.asfortranarray(c))
            cores = [seen[id(c)] for c in cores]
        kind = 'shared_core_objects'

    hist_seed = int(rng.integers(0, 2 ** 31))

    def fresh():
        with probe.oracle():
            t_ = tt.TT(gen.clone_cores(cores))
            if with_history:  # the same history for every copy: sweeps, in-place mutators that no sweep is told about, re-construction
                t_ = gen.provenance(np.random.default_rng(hist_seed), t_, steps=int(hist_seed % 3) + 1, reorder=True)
            return t_
    with_history = rng.random() < 0.4
    if rng.random() < 0.03:
        cores = [np.zeros((1 if i == 0 else 2, rows[i], cols[i], 1 if i == d - 1 else 2)) for i in range(d)]  # the zero tensor with ranks 2
        kind, with_history = 'zero_tensor', False
    mr = int(rng.integers(1, 5))
    mrl = [1] + [int(rng.integers(1, 5)) for _ in range(d - 1)] + [1]
    thr = float(10 ** rng.uniform(-8, np.log10(0.5)))
    ctx.describe({'op': 'ortho(max_rank/threshold)', 'rows': rows, 'cols': cols, 'kind': kind, 'max_rank': mr, 'max_ranks': mrl, 'threshold': thr})
    t = fresh()
    call('TT.ortho', t.ortho, prop=P, max_rank=mr)
    t = fresh()
    call('TT.ortho', t.ortho, prop=P, max_rank=mrl)
    t = fresh()
    call('TT.ortho', t.ortho, prop=P, threshold=thr)
    call('TT.__init__', lambda: tt.TT(gen.clone_cores(cores), max_rank=mr), prop=P)
    call('TT.__init__', lambda: tt.TT(gen.clone_cores(cores), max_rank=mrl), prop=P)
    call('TT.__init__', lambda: tt.TT(gen.clone_cores(cores), threshold=thr), prop=P)
    # one-sided truncating sweeps after the opposite side was orthonormalised (precondition measured by the contract)
    t = fresh()
    call('TT.ortho_left', t.ortho_left, prop=P)
    call('TT.ortho_right', t.ortho_right, prop=P, max_rank=mr)
    t = fresh()
    call('TT.ortho_right', t.ortho_right, prop=P)
    call('TT.ortho_left', t.ortho_left, prop=P, max_rank=mrl)
    # and without the precondition: only the rank bound is asserted
    t = fresh()
    call('TT.ortho_right', t.ortho_right, prop=P, max_rank=mrl)
    t = fresh()
    call('TT.ortho_left', t.ortho_left, prop=P, max_rank=mr, threshold=thr)


def w_refused(ctx, rng, idx):
    """a truncating sweep whose per-bond list of maximum ranks has an inadmissible entry (0, negative, non-integer) somewhere - often to
    the right of bonds whose admissible bounds really truncate - is refused; the caller corrects the list and repeats the call on the same
    object.  The refusal must have left the represented tensor alone (wrapper); the repeated call is then judged against the original."""
    x, rows, cols, kind = tensor(rng)
    d = len(rows)
    with probe.oracle():
        t = tt.TT(x)
    m = ['ortho_left', 'ortho_right', 'ortho'][int(rng.integers(0, 3))]
    good = [1] + [int(rng.integers(1, 4)) for _ in range(d - 1)] + [1]
    bad = list(good)
    bad[int(rng.integers(1, d)) if d > 1 and rng.random() < 0.8 else int(rng.integers(0, d + 1))] = [0, -1, 2.5, -2][int(rng.integers(0, 4))]
    ctx.describe({'op': 'refused truncating sweep, then the corrected call', 'method': m, 'max_rank': bad, 'corrected': good, 'rows': rows, 'cols': cols, 'ranks': t.ranks, 'kind': kind})
    refused_then_used('TT.' + m, getattr(t, m), max_rank=bad)
    call('TT.' + m, getattr(t, m), prop=P, max_rank=good, tags=['after_refused_call'])


def w_failpoint(ctx, rng, idx):
    """truncating sweeps with the default SVD driver failing (LinAlgError injected at the LAPACK boundary before the input is
    touched): the gesvd fallback branch must satisfy the same rank and error bounds"""
    probe.S.failpoint_svd = True
    try:
        w_ortho_trunc(ctx, rng, idx)
    finally:
        probe.S.failpoint_svd = False


def finish(ctx):
    if ctx.workload_counts.get('failpoint', 0) > 0:
        ctx.checks['C04|failpoint:default_svd_driver_failure_injected'] += probe.S.failpoint_hits
    ctx.events['failpoint_hits_total'] += probe.S.failpoint_hits


def w_from_large_array(ctx, rng, idx):
    """full arrays whose unfoldings are far wider than high (a small leading mode, tens of thousands of columns): the sizes
    where an implementation might switch to another algorithm; every clause of the array branch applies unchanged"""
    d = int(rng.integers(3, 5))
    rows = [int(rng.integers(2, 4))] + [int(rng.integers(8, 31)) for _ in range(d - 1)]
    while int(np.prod(rows)) > 60000:
        rows[int(np.argmax(rows))] -= 3
    cplx = bool(rng.integers(0, 2))
    k = int(rng.integers(0, 2))
    if k == 0:
        x = gen.randn(rng, rows + [1] * d, cplx)
        kind = 'flat_spectrum'
    else:
        x = gen.low_rank_tensor(rng, rows, [1] * d, [1] + [int(rng.integers(1, 4)) for _ in range(d - 1)] + [1], noise=1e-3, cplx=cplx)
        kind = 'lowrank_plus_noise'
    mr = int(rng.integers(1, 4))
    thr = float(10 ** rng.uniform(-6, -1))
    ctx.describe({'op': 'TT(large ndarray)', 'shape': list(x.shape), 'kind': kind, 'complex': cplx, 'max_rank': mr, 'threshold': thr})
    call('TT.__init__', lambda: tt.TT(x), prop=P, tags=['large'])
    call('TT.__init__', lambda: tt.TT(x, max_rank=mr), prop=P, tags=['large'])
    call('TT.__init__', lambda: tt.TT(x, threshold=thr), prop=P, tags=['large'])


def w_large_rank(ctx, rng, idx):
    """trains with a genuinely large bond (rank 256-320, both dimensions of the unfolded core >= 256) cut to a small cap (4-18), with a
    nearly flat, a slowly decaying and an exactly flat singular spectrum: order 2 (where the bound is attained by the optimal
    truncation) and order 3 with a per-bond list that caps only the large bond"""
    cplx = bool(rng.integers(0, 2))
    r = int(rng.integers(256, 321))
    m, n = int(rng.integers(r, 340)), int(rng.integers(r, 340))
    k = int(rng.integers(0, 3))
    sv = [1.0 + 0.02 * rng.random(r), (1.0 + np.arange(r)) ** -0.15, np.ones(r)][k]
    U = np.linalg.qr(gen.randn(rng, (m, r), cplx))[0]
    V = np.linalg.qr(gen.randn(rng, (n, r), cplx))[0]
    cap = int(rng.integers(4, r // 16 + 1))
    order3 = rng.random() < 0.35
    if order3:
        m = 4 * (m // 4)
        U = U[:m]
        c0 = np.eye(4).reshape(1, 4, 1, 4).astype(U.dtype)
        cores = [c0, (U * sv[None, :]).reshape(4, m // 4, 1, r), V.conj().T.reshape(r, n, 1, 1)]
        caps = [1, np.inf, cap, 1]
    else:
        cores = [(U * sv[None, :]).reshape(1, m, 1, r), V.conj().T.reshape(r, n, 1, 1)]
        caps = [cap, [1, cap, 1]][int(rng.integers(0, 2))]
    ctx.describe({'op': 'ortho(max_rank) on a large bond', 'rank': r, 'dims': [m, n], 'cap': cap, 'spectrum': ['nearly_flat', 'slow_decay', 'flat'][k], 'order': 3 if order3 else 2, 'complex': cplx})
    with probe.oracle():
        t = tt.TT([c.copy() for c in cores])
    call('TT.ortho', t.ortho, prop=P, tags=['large_rank'], max_rank=caps)
    with probe.oracle():
        t2 = tt.TT([c.copy() for c in cores])
    call('TT.ortho_left', t2.ortho_left, prop=P, tags=['large_rank'])
    call('TT.ortho_right', t2.ortho_right, prop=P, tags=['large_rank'], max_rank=caps)


WORKLOADS = [
    Workload('large_rank', w_large_rank, 3, 24),
    Workload('from_array', w_from_array, 320, 8000),
    Workload('ortho_trunc', w_ortho_trunc, 200, 5000),
    Workload('failpoint', w_failpoint, 40, 800),
    Workload('refused', w_refused, 100, 2000),
    Workload('from_large_array', w_from_large_array, 8, 60),
    ambient.WORKLOAD,
]
REQUIRED = ['C04|failpoint:default_svd_driver_failure_injected', 'C04|TT.__init__:rank_bound', 'C04|TT.__init__:quasi_optimal_error', 'C04|TT.__init__:threshold_error',
            'C04|TT.__init__:exact_without_truncation', 'C04|TT.ortho:rank_bound', 'C04|TT.ortho:quasi_optimal_error',
            'C04|TT.ortho_right:rank_bound', 'C04|TT.ortho_left:rank_bound', 'C04|TT.ortho_right:quasi_optimal_error',
            'C04|TT.ortho_left:quasi_optimal_error']
