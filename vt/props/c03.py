"""C03 - orthonormalisation preserves the tensor and yields orthonormal cores.  Deciding monitors: OrthoLeft/OrthoRight/
Ortho contracts (value preserved, isometry of processed cores, ranks not increased, untouched cores bitwise
unchanged, metadata consistent) + M8 failpoint driving the gesvd fallback branch."""
import numpy as np

from .. import gen, probe
from ..drive import call, refused_then_used
from ..shard import Workload
from ._common import arm_tt
from . import ambient

P = 'C03'
tt = None


def setup(ctx):
    global tt
    tt = arm_tt(ctx)
    gen.LAYOUT = 0.15
    gen.ALIAS = 0.12
    gen.PROV = 0.25  # a quarter of the generated operands come with a history of library operations (gen.provenance)


def make(rng, dmax=5, boundary=False):
    rows, cols, ranks = gen.rand_shape(rng, dmax=dmax, mmax=3, rmax=5, size_cap=8192)
    d = len(rows)
    cplx = gen.rand_cplx(rng)
    k = int(rng.integers(0, 8))
    if boundary:
        ranks = [int(rng.integers(1, 4))] + ranks[1:-1] + [int(rng.integers(1, 4))]
    if k == 0:
        cores = gen.rank_deficient_cores(rng, rows, cols, ranks, cplx)
        kind = 'rank_deficient'
    elif k == 1:  # over-parameterised: ranks larger than the mode products allow
        ranks = [ranks[0]] + [int(rng.integers(3, 7)) for _ in range(d - 1)] + [ranks[-1]]
        cores = gen.rand_cores(rng, rows, cols, ranks, cplx)
        kind = 'overparam'
    elif k == 2:
        cores = gen.rand_cores(rng, rows, cols, gen.feasible_ranks(rows, cols, [1] + [4] * (d - 1) + [1]) if not boundary else ranks, cplx)
        kind = 'feasible'
    elif k == 3:
        cores = gen.rand_cores(rng, rows, cols, ranks, cplx)
        kind = 'generic'
    elif k == 4:  # structured: exactly-zero cores / zero tensor / unit vectors
        cores = gen.rand_cores(rng, rows, cols, ranks, cplx)
        z = int(rng.integers(0, 3))
        if z == 0:
            cores = [np.zeros_like(c) for c in cores]
            kind = 'zero_tensor'
        elif z == 1:
            j = int(rng.integers(0, d))
            cores[j] = np.zeros_like(cores[j])
            kind = 'one_zero_core'
        else:
            for c in cores:
                c[...] = 0
                c[tuple(int(rng.integers(0, n)) for n in c.shape)] = 1
            kind = 'unit_entries'
    elif k == 7:
        # a bond whose two cores are scaled against each other by 2^52..2^70 in ONE rank index (column j of the left core tiny, row j
        # of the right core huge: the product is an ordinary tensor, exactly the one before the rescaling).  Ranks <= 2: for these
        # the orthogonal factorisations are accurate column by column whatever the grading
        ranks = [ranks[0]] + [int(rng.integers(1, 3)) for _ in range(d - 1)] + [ranks[-1]]
        if boundary:
            ranks = [min(ranks[0], 2)] + ranks[1:-1] + [min(ranks[-1], 2)]
        cores = gen.rand_cores(rng, rows, cols, ranks, cplx)
        cand = [i for i in range(d - 1) if ranks[i + 1] == 2]
        for i in cand[:1 + int(rng.integers(0, 2))]:
            e = int(rng.integers(52, 71)) * (1 if rng.random() < 0.5 else -1)
            j = int(rng.integers(0, 2))
            cores[i] = np.array(cores[i], copy=True)
            cores[i + 1] = np.array(cores[i + 1], copy=True)
            cores[i][:, :, :, j] = cores[i][:, :, :, j] * 2.0 ** (-e)
            cores[i + 1][j, :, :, :] = cores[i + 1][j, :, :, :] * 2.0 ** e
        kind = 'bond_scaled_against_itself'
    elif k == 6:
        # entries whose squares leave the normal floating-point range (|x| ~ 1e-162..1e-150 or 1e140..1e152): norms and Gram matrices
        # formed without scaling lose digits or overflow there, LAPACK's scaled routines do not
        cores = gen.rand_cores(rng, rows, cols, ranks, cplx)
        e = float(rng.uniform(-162, -150)) if rng.random() < 0.7 else float(rng.uniform(140, 152))
        j = int(rng.integers(0, d))
        cores[j] = cores[j] * 10.0 ** e
        kind = 'extreme_scale'
    else:
        cores = gen.rand_cores(rng, rows, cols, ranks, cplx)
        gen.apply_scale(cores, rng, float(10 ** rng.uniform(-10, 10)))
        kind = 'scaled'
    if kind not in ('extreme_scale', 'bond_scaled_against_itself') and rng.random() < 0.15:  # equal-shaped cores are one ndarray object (x (x) x (x) x as TT([x, x, x]), homogeneous chains)
        if rng.random() < 0.5 and d > 1:  # make that likely: homogeneous shape
            m, n, r = rows[0], cols[0], int(rng.integers(1, 3))
            cores = gen.rand_cores(rng, [m] * d, [n] * d, [r] * (d + 1), cplx if cplx != 'mixed' else True)
        gen.alias_equal_shapes(cores)
        kind += '_aliased_cores'
    return tt.TT(cores), kind


def clone(t):
    with probe.oracle():
        return tt.TT(gen.clone_cores(t.cores))


def w_sweeps(ctx, rng, idx):
    t, kind = make(rng, boundary=(idx % 5 == 0))
    ctx.describe({'op': 'ortho_left/right/ortho', 'row': t.row_dims, 'col': t.col_dims, 'ranks': t.ranks, 'kind': kind,
                  'complex': [bool(np.iscomplexobj(c)) for c in t.cores]})
    a, b, c = clone(t), clone(t), clone(t)
    call('TT.ortho_left', a.ortho_left, prop=P)
    call('TT.ortho_right', b.ortho_right, prop=P)
    call('TT.ortho', c.ortho, prop=P)
    # second application on an already orthonormal object must keep everything (idempotence of the value)
    call('TT.ortho_right', a.ortho_right, prop=P)
    call('TT.ortho_left', b.ortho_left, prop=P)
    if rng.random() < 0.3:
        # the owner of the orthonormalised trains rescales their cores in place (t.cores[i] *= 3): whatever a sweep hands out belongs
        # to that train alone - a later sweep on another train of the same shape must come out right
        with probe.oracle():
            for x in (a, b, c):
                for cr in x.cores:
                    if cr.flags.writeable and cr.dtype.kind in 'fc':
                        cr *= 3.0
        e, f = clone(t), clone(t)
        call('TT.ortho_left', e.ortho_left, prop=P, tags=['after_in_place_change_of_earlier_results'])
        call('TT.ortho_right', f.ortho_right, prop=P, tags=['after_in_place_change_of_earlier_results'])
    if idx < 3:
        ctx.sample({'workload': 'sweeps', 'row_dims': t.row_dims, 'col_dims': t.col_dims, 'ranks': t.ranks, 'kind': kind})


def w_refused(ctx, rng, idx):
    """a sweep called with an inadmissible option value is refused; the caller goes on with the same object (repeats the call with a
    corrected value): the refusal must have left it the train it was (judged in the wrapper)"""
    t, kind = make(rng)
    d = t.order
    m = ['ortho_left', 'ortho_right', 'ortho'][int(rng.integers(0, 3))]
    u = int(rng.integers(0, 6))
    bad_list = [int(rng.integers(1, 4)) for _ in range(d + 1)]
    bad_list[int(rng.integers(0, d + 1))] = [0, -1, 2.5][int(rng.integers(0, 3))]
    kw = [{'threshold': -1.0}, {'max_rank': 0}, {'max_rank': -3}, {'max_rank': 2.5}, {'max_rank': bad_list}, {'threshold': -1e-3, 'max_rank': 2}][u]
    ctx.describe({'op': 'refused sweep, then ordinary use', 'method': m, 'options': {k_: (v if not isinstance(v, list) else list(v)) for k_, v in kw.items()}, 'row': t.row_dims, 'col': t.col_dims, 'ranks': t.ranks, 'kind': kind})
    a = clone(t)
    refused_then_used('TT.' + m, getattr(a, m), **kw)
    call('TT.' + m, getattr(a, m), prop=P, tags=['after_refused_call'])
    call('TT.ortho_left', a.ortho_left, prop=P, tags=['after_refused_call'])


def enum_partial(tier):
    out = []
    for d in range(1, 6):
        for s in range(0, d - 1):
            for e in range(s, d - 1):
                out.append(('left', d, s, e))
        for s in range(d - 1, 0, -1):
            for e in range(s, 0, -1):
                out.append(('right', d, s, e))
    return out * (2 if tier == 'quick' else 12)


def w_partial(ctx, rng, idx, param):
    side, d, s, e = param
    rows, cols = gen.rand_dims(rng, d, 3), ([1] * d if rng.random() < 0.5 else gen.rand_dims(rng, d, 2))
    ranks = gen.rand_ranks(rng, d, 4)
    cplx = gen.rand_cplx(rng)
    cores = gen.rank_deficient_cores(rng, rows, cols, ranks, cplx) if rng.random() < 0.3 else gen.rand_cores(rng, rows, cols, ranks, cplx)
    if rng.random() < 0.2:  # a train assembled from one block repeated (Kronecker powers, TT(b.cores + b.cores)): shared core objects
        if rng.random() < 0.5:
            r = int(rng.integers(1, 3))
            cores = gen.rand_cores(rng, [rows[0]] * d, [cols[0]] * d, [r] * (d + 1), cplx if cplx != 'mixed' else True)
        gen.alias_equal_shapes(cores)
    t = tt.TT(cores)
    ctx.describe({'op': 'ortho_' + side, 'start': s, 'end': e, 'row': rows, 'col': cols, 'ranks': ranks})
    kw = {}
    if rng.random() < 0.35:
        # a per-bond list of rank bounds that does NOT bind (every entry at least the rank of its own bond, entries differing from bond
        # to bond - e.g. max_rank=list(t.ranks)): a partial sweep with it is still a sweep without truncation
        kw['max_rank'] = [int(r_) + int(rng.integers(0, 3)) * int(rng.integers(0, 2)) for r_ in t.ranks]
        ctx.describe({'op': 'ortho_' + side, 'start': s, 'end': e, 'row': rows, 'col': cols, 'ranks': ranks, 'max_rank': kw['max_rank']})
    if side == 'left':
        call('TT.ortho_left', t.ortho_left, prop=P, start_index=s, end_index=e, **kw)
    else:
        call('TT.ortho_right', t.ortho_right, prop=P, start_index=s, end_index=e, **kw)


def finish(ctx):
    # the failpoint workload must really have driven the fallback branch: a run in which the injected failure never fired
    # has not observed that branch (this happened silently after the repository stopped passing overwrite_a=True)
    if ctx.workload_counts.get('failpoint', 0) > 0:
        ctx.checks['C03|failpoint:default_svd_driver_failure_injected'] += probe.S.failpoint_hits
    ctx.events['failpoint_hits_total'] += probe.S.failpoint_hits


def w_failpoint(ctx, rng, idx):
    t, kind = make(rng, dmax=4)
    ctx.describe({'op': 'ortho with failing default SVD driver', 'row': t.row_dims, 'col': t.col_dims, 'ranks': t.ranks, 'kind': kind})
    a, b, c = clone(t), clone(t), clone(t)
    probe.S.failpoint_svd = True
    try:
        call('TT.ortho_left', a.ortho_left, prop=P, tags=['failpoint'])
        call('TT.ortho_right', b.ortho_right, prop=P, tags=['failpoint'])
        call('TT.ortho', c.ortho, prop=P, tags=['failpoint'])
    finally:
        probe.S.failpoint_svd = False


WORKLOADS = [
    Workload('sweeps', w_sweeps, 500, 12000),
    Workload('partial', w_partial, None, None, enum=enum_partial),
    Workload('failpoint', w_failpoint, 60, 2000),
    Workload('refused', w_refused, 120, 2000),
    ambient.WORKLOAD,
]
REQUIRED = ['C03|failpoint:default_svd_driver_failure_injected', 'C03|TT.ortho_left:value_preserved', 'C03|TT.ortho_right:value_preserved', 'C03|TT.ortho:value_preserved',
            'C03|TT.ortho_left:isometry', 'C03|TT.ortho_right:isometry', 'C03|TT.ortho:isometry',
            'C03|TT.ortho_left:ranks_not_increased', 'C03|TT.ortho_right:ranks_not_increased',
            'C03|TT.ortho_left:untouched_cores_unchanged', 'C03|TT.ortho_right:untouched_cores_unchanged',
            'C03|TT.ortho_left:consistent_after', 'C03|TT.ortho_right:consistent_after']

