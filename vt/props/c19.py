"""C19 - generator EDMD: product-rule evaluation and reduced matrix match the dense ones.  Deciding monitors: contracts in
vt.monitors_tgedmd (complex-step derivatives of the product function; dense projected generator from a NumPy SVD)."""
import contextlib
import io

import numpy as np

from .. import gen, probe, monitors_tgedmd, monitors_transform, monitors_basis
from ..drive import call
from ..shard import Workload
from ._common import arm_light
from . import c15

P = 'C19'
tg = None
tr = None


def setup(ctx):
    global tg, tr
    arm_light(ctx)
    tr = monitors_transform.install()
    c15.tr = tr
    monitors_basis.install()
    tg = monitors_tgedmd.install()


USER_CLASSES = {}


def user_function(rng, d):
    """a user-defined basis function of ALL coordinates (subclass of the library's Function with its own call / partial / partial2):
    a quadratic form plus a linear part, or a Gaussian bump of a linear functional - Hessians with off-diagonal entries"""
    if 'Quadratic' not in USER_CLASSES:
        class Quadratic(tr.Function):
            def __init__(self, Q, b, dimension):
                super().__init__(dimension)
                self.Q, self.b = Q, b

            def __call__(self, t):
                t = np.asarray(t)
                return t @ self.Q @ t + self.b @ t

            def partial(self, t, direction):
                t = np.asarray(t)
                return ((self.Q + self.Q.T) @ t)[direction] + self.b[direction]

            def partial2(self, t, direction1, direction2):
                return (self.Q + self.Q.T)[direction1, direction2] + 0 * np.asarray(t)[0]

        class Ridge(tr.Function):
            def __init__(self, a, dimension):
                super().__init__(dimension)
                self.a = a

            def __call__(self, t):
                return np.exp(-0.5 * (self.a @ np.asarray(t)) ** 2)

            def partial(self, t, direction):
                u = self.a @ np.asarray(t)
                return -u * self.a[direction] * np.exp(-0.5 * u ** 2)

            def partial2(self, t, direction1, direction2):
                u = self.a @ np.asarray(t)
                return (u ** 2 - 1.0) * self.a[direction1] * self.a[direction2] * np.exp(-0.5 * u ** 2)
        USER_CLASSES['Quadratic'], USER_CLASSES['Ridge'] = Quadratic, Ridge
    if rng.random() < 0.5:
        return USER_CLASSES['Quadratic'](rng.standard_normal((d, d)), rng.standard_normal(d), d)
    return USER_CLASSES['Ridge'](rng.standard_normal(d), d)


def smooth_function(rng, d):
    if d > 1 and rng.random() < 0.12:
        return user_function(rng, d)
    i = int(rng.integers(0, d))
    k = int(rng.integers(0, 7))
    if k == 0:
        return tr.ConstantFunction(i, d)
    if k == 1:
        return tr.Identity(i, d)
    if k == 2:
        return tr.Monomial(i, int(rng.integers(0, 4)), dimension=d)
    if k == 3:
        return tr.Legendre(i, int(rng.integers(0, 4)), 2.0, d)
    if k == 4:
        return tr.Sin(i, float(rng.uniform(0.5, 2)), d)
    if k == 5:
        return tr.Cos(i, float(rng.uniform(0.5, 2)), d)
    return tr.GaussFunction(i, float(rng.uniform(-1, 1)), float(rng.uniform(0.3, 2)), d)


def basis(rng, d, pmin=2, pmax=3):
    p = int(rng.integers(pmin, pmax + 1))
    bl = [[smooth_function(rng, d) for _ in range(int(rng.integers(1, 4)))] for _ in range(p)]
    if rng.random() < 0.3:
        # product bases assembled from one and the same objects: [B0, B1, B0], [B] * p, or single functions listed in several modes
        # (f(x_0) g(x_1) f(x_0) is an admissible product; which factor is which is decided by the mode, not by the object)
        k = int(rng.integers(0, 3))
        j, l = (int(v) for v in rng.choice(p, size=2, replace=False))
        if k == 0:
            bl[l] = bl[j]
        elif k == 1:
            bl[l] = list(bl[j])
            rng.shuffle(bl[l])
        else:
            bl[l][int(rng.integers(0, len(bl[l])))] = bl[j][int(rng.integers(0, len(bl[j])))]
    return bl


def quiet(fn, *a, **kw):
    with contextlib.redirect_stdout(io.StringIO()):
        return fn(*a, **kw)


def weights(rng, m):
    """importance-sampling ratios: mild (0.5..2), spread over several decades, strongly peaked (a few snapshots carry the weight), or
    unnormalised (all of the order 1e-6..1e-3) - ratios are only defined up to a factor and may differ by orders of magnitude"""
    k = int(rng.integers(0, 6))
    if k == 5:
        # multiplicities (how often a snapshot was visited): integer arrays as counting code produces them (np.bincount / np.unique give
        # int64, hand-written counters often unsigned); 32- and 64-bit types only (the square root of an 8- or 16-bit NumPy integer is a
        # half- / single-precision number: weights of that kind are not what "the same singular-value cut" can be asked of)
        return rng.integers(1, 6, size=m).astype([np.int64, np.uint32, np.uint64][int(rng.integers(0, 3))])
    if k <= 1:
        return rng.uniform(0.5, 2.0, size=m)
    if k == 2:
        return 10.0 ** rng.uniform(-4, 0, size=m)
    if k == 3:
        w = 10.0 ** rng.uniform(-4, -2, size=m)
        w[rng.choice(m, size=max(1, m // 3), replace=False)] = rng.uniform(0.5, 2.0, size=max(1, m // 3))
        return w
    return rng.uniform(0.5, 2.0, size=m) * float(10 ** rng.uniform(-6, -3))


def w_product(ctx, rng, idx):
    d = int(rng.integers(1, 4))
    d2 = d if rng.random() < 0.5 else int(rng.integers(1, 4))
    bl = basis(rng, d, 2, 4)
    x = gen.data_matrix(rng, d, lim=1.2)
    b = rng.standard_normal(d)
    sigma = rng.standard_normal((d, d2))
    ctx.describe({'op': 'generator_on_product', 'd': d, 'd2': d2, 'modes': [[type(f).__name__ for f in fl] for fl in bl]})
    for _ in range(4):
        s = tuple(int(rng.integers(0, len(fl))) for fl in bl)
        call('tgedmd.generator_on_product', tg.generator_on_product, bl, s, x, b, sigma, prop=P, refusals=(NotImplementedError,))
        i = int(rng.integers(0, d2))
        call('tgedmd.generator_on_product_reversible', tg.generator_on_product_reversible, bl, s, i, x, sigma, prop=P, refusals=(NotImplementedError,))
    if idx < 2:
        ctx.sample({'workload': 'product', 'state_dim': d, 'sigma_shape': [d, d2], 'modes': [[type(f).__name__ for f in fl] for fl in bl]})


def w_amuset(ctx, rng, idx):
    d = int(rng.integers(1, 4))
    d2 = d if rng.random() < 0.5 else int(rng.integers(1, 4))
    m = int(rng.integers(3, 9))
    bl = basis(rng, d, 2, 3)
    while int(np.prod([len(f) for f in bl])) * m > 300:
        bl = basis(rng, d, 2, 3)
    X = gen.data_matrix(rng, (d, m), lim=1.2)
    if monitors_transform.data_tensor_class(X, bl) == 'zero':
        ctx.skip('amuset_data_tensor_zero')
        return
    sigma = rng.standard_normal((d, d2, m))
    rev = bool(rng.integers(0, 2))
    b = None if rev else rng.standard_normal((d, m))
    w = weights(rng, m) if rng.random() < 0.5 else None
    opt = ['eigenfunctionevals', 'eigenvectors', 'eigentensors'][int(rng.integers(0, 3))]
    relthr = bool(rng.integers(0, 2))
    nev = np.inf if rng.random() < 0.6 else int(rng.integers(1, 4))
    ctx.describe({'op': 'tgedmd.amuset_hosvd', 'd': d, 'd2': d2, 'm': m, 'modes': [[type(f).__name__ for f in fl] for fl in bl], 'reversible': rev, 'reweight': w is not None,
                  'return_option': opt, 'rel_threshold': relthr, 'num_eigvals': str(nev)})
    tags = ['reversible' if rev else 'nonreversible', 'square_sigma' if d2 == d else 'nonsquare_sigma']
    thr = [1e-8, 1e-8, 1e-10, 1e-6, 1e-2, 1e-3, 1e-1][int(rng.integers(0, 7))]  # (1e-2 is the default; decided where the cut falls into a gap)
    extra = {}
    if rng.random() < 0.25:
        extra['max_rank'] = [10 ** 4, 50][int(rng.integers(0, 2))]
    if rng.random() < 0.15:
        extra['output_freq'] = int(rng.integers(1, 4))
    call('tgedmd.amuset_hosvd', quiet, tg.amuset_hosvd, X, bl, sigma, prop=P, tags=tags, refusals=(np.linalg.LinAlgError,), b=b, reweight=w, num_eigvals=nev, threshold=thr,
         return_option=opt, rel_threshold=relthr, **extra)
    if rng.random() < 0.4:
        # the very same data / basis / diffusion arrays again with the other generator form and another weighting (second call)
        b2 = rng.standard_normal((d, m)) if rev else None
        w2 = None if w is not None else weights(rng, m)
        call('tgedmd.amuset_hosvd', quiet, tg.amuset_hosvd, X, bl, sigma, prop=P, tags=['nonreversible' if rev else 'reversible', tags[1], 'second_call'], refusals=(np.linalg.LinAlgError,),
             b=b2, reweight=w2, num_eigvals=np.inf, threshold=thr, return_option='eigenfunctionevals', rel_threshold=relthr)
    if idx < 3:
        ctx.sample({'workload': 'amuset', 'state_dim': d, 'sigma_shape': [d, d2, m], 'modes': [[type(f).__name__ for f in fl] for fl in bl], 'reversible': rev, 'reweight': w is not None,
                    'return_option': opt})


def w_many(ctx, rng, idx):
    """many snapshots, few basis functions (time series of thousands of points are the normal use): snapshot counts around and
    beyond powers of two, both generator forms"""
    d = int(rng.integers(1, 3))
    d2 = d if rng.random() < 0.5 else int(rng.integers(1, 3))
    m = int([rng.integers(4097, 4700), rng.integers(2049, 4096), rng.integers(4700, 6500), rng.integers(1025, 2048)][idx % 4])
    bl = [[smooth_function(rng, d) for _ in range(int(rng.integers(1, 3)))] for _ in range(2)]
    while int(np.prod([len(f) for f in bl])) < 2:
        bl = [[smooth_function(rng, d) for _ in range(int(rng.integers(1, 3)))] for _ in range(2)]
    X = rng.uniform(-1.2, 1.2, size=(d, m))
    sigma = rng.standard_normal((d, d2, m))
    rev = idx % 3 == 2
    b = None if rev else rng.standard_normal((d, m))
    w = rng.uniform(0.5, 2.0, size=m) if rng.random() < 0.5 else None
    ctx.describe({'op': 'tgedmd.amuset_hosvd', 'd': d, 'd2': d2, 'm': m, 'modes': [[type(f).__name__ for f in fl] for fl in bl], 'reversible': rev, 'reweight': w is not None})
    monitors_basis.STRIDE[0] = 29
    try:
        call('tgedmd.amuset_hosvd', quiet, tg.amuset_hosvd, X, bl, sigma, prop=P, tags=['reversible' if rev else 'nonreversible', 'many_snapshots'], refusals=(np.linalg.LinAlgError,),
             b=b, reweight=w, num_eigvals=np.inf, threshold=1e-8, return_option='eigenfunctionevals', rel_threshold=True)
    finally:
        monitors_basis.STRIDE[0] = 1
    if idx < 2:
        ctx.sample({'workload': 'many_snapshots', 'state_dim': d, 'snapshots': m, 'modes': [[type(f).__name__ for f in fl] for fl in bl], 'reversible': rev})


def w_ill(ctx, rng, idx):
    """smooth but poorly conditioned bases (monomials up to degree 3-5 on an interval away from 0, in two modes): the transformed data
    matrix has condition numbers of 1e4..1e9 - far from rank deficiency in double precision; no cut (threshold 0) or a tiny relative cut"""
    d = int(rng.integers(1, 3))
    d2 = d if rng.random() < 0.5 else int(rng.integers(1, 3))
    deg = [int(rng.integers(2, 6)) for _ in range(2)]
    bl = [[tr.Monomial(int(rng.integers(0, d)) if k else 0, e, dimension=d) for e in range(deg[k] + 1)] for k in range(2)]
    if d == 2:
        bl[1] = [tr.Monomial(1, e, dimension=d) for e in range(deg[1] + 1)]
    N = int(np.prod([len(f) for f in bl]))
    m = int(rng.integers(N + 4, N + 40))
    lo = float(rng.uniform(0.1, 0.5))
    X = rng.uniform(lo, lo + 1.0, size=(d, m))
    sigma = rng.standard_normal((d, d2, m))
    rev = bool(idx % 2)
    b = None if rev else rng.standard_normal((d, m))
    w = rng.uniform(0.5, 2.0, size=m) if rng.random() < 0.5 else None
    thr, rel = [(0.0, False), (1e-13, True), (0.0, True)][int(rng.integers(0, 3))]
    ctx.describe({'op': 'tgedmd.amuset_hosvd', 'd': d, 'd2': d2, 'm': m, 'degrees': deg, 'reversible': rev, 'reweight': w is not None, 'threshold': thr, 'rel': rel})
    monitors_basis.STRIDE[0] = 7
    try:
        call('tgedmd.amuset_hosvd', quiet, tg.amuset_hosvd, X, bl, sigma, prop=P, tags=['reversible' if rev else 'nonreversible', 'poorly_conditioned_basis'], refusals=(np.linalg.LinAlgError,),
             b=b, reweight=w, num_eigvals=np.inf, threshold=thr, return_option='eigenfunctionevals', rel_threshold=rel)
    finally:
        monitors_basis.STRIDE[0] = 1


def w_failpoint(ctx, rng, idx):
    """the same workload with the default SVD driver failing (LinAlgError injected at the LAPACK boundary before the input is touched):
    utils.truncated_svd must take its gesvd fallback and every clause must still hold"""
    probe.S.failpoint_svd = True
    try:
        w_amuset(ctx, rng, idx + 10 ** 6)
    finally:
        probe.S.failpoint_svd = False


WORKLOADS = [
    Workload('product', w_product, 200, 4000),
    Workload('amuset', w_amuset, 160, 3000),
    Workload('failpoint', w_failpoint, 30, 500),
    Workload('many_snapshots', w_many, 1, 6),
    Workload('poorly_conditioned', w_ill, 12, 200),
]
REQUIRED = ['C19|tgedmd.generator_on_product:equals_generator_applied_to_product', 'C19|tgedmd.generator_on_product_reversible:equals_gradient_of_product_dot_sigma_column',
            'C19|tgedmd.amuset_hosvd:eigenvalues_equal_dense_projected_generator']
