"""shared set-up of the monitors"""
import importlib

from .. import core, probe, contracts_tt


def arm_tt(ctx, lapack=True):
    """contracts on the real TT class / tensor_train functions + LAPACK boundary observer"""
    tt = importlib.import_module('scikit_tt.tensor_train')
    if getattr(tt.TT, '__vt_armed__', False):
        return tt
    contracts_tt.install(tt)
    tt.TT.__vt_armed__ = True
    if lapack:
        probe.install_lapack_observer()
    return tt


def arm_light(ctx, lapack=True):
    """only what the solver-level properties need from the TT layer: the class reference for the generic
    argument/return contracts and the LAPACK boundary observer.  (The value contracts on every internal `+`, `@`,
    norm ... are armed in the C01-C06 runs, including their `ambient` solver workloads.)"""
    tt = importlib.import_module('scikit_tt.tensor_train')
    contracts_tt.TT = tt.TT
    contracts_tt.ttmod = tt
    from .. import gen
    gen.PROV = 0.15  # some generated operands (operators, guesses, right-hand sides, states) come with a history of library operations
    if lapack:
        probe.install_lapack_observer()
    return tt
