"""shared set-up of the monitors"""
import importlib

from .. import core, probe, contracts_tt


def arm_tt(ctx, lapack=True):
    """contracts on the real TT class / tensor_train functions + LAPACK boundary observer"""
    tt = importlib.import_module('scikit_tt.tensor_train')
    if getattr(tt.TT, '__vt_armed__', False):
        return tt
    contracts_tt.install(tt)
    tt.TT.__vt_armed__ = True
    if lapack:
        probe.install_lapack_observer()
    return tt
