"""C02 - contractions and structural rearrangements equal their dense definition.  Deciding monitors: M2 contracts
on tensordot / rank_tensordot / concatenate / rank_transpose / diag / squeeze / tt2qtt / qtt2tt / build_core(_vector)."""
import itertools

import numpy as np

from .. import gen, core, probe
from ..dense import dense, close, core_scale
from ..drive import call, expect_refusal, refused_then_used
from ..shard import Workload
from ._common import arm_tt
from . import ambient

P = 'C02'
tt = None
MODES = ['last-first', 'last-last', 'first-last', 'first-first']


def setup(ctx):
    global tt
    tt = arm_tt(ctx)
    gen.LAYOUT = 0.15
    gen.ALIAS = 0.12
    gen.PROV = 0.25  # a quarter of the generated operands come with a history of library operations (gen.provenance)


def enum_tensordot(tier):
    dmax = 3 if tier == 'quick' else 4
    out = []
    for mode in MODES:
        for d1 in range(1, dmax + 1):
            for d2 in range(1, dmax + 1):
                for k in range(1, min(d1, d2) + 1):
                    for ow in (False, True):
                        for rep in range(1 if tier == 'quick' else 6):
                            out.append((mode, d1, d2, k, ow, rep))
    return out


def w_tensordot(ctx, rng, idx, param):
    mode, d1, d2, k, ow, rep = param
    vec = rng.random() < 0.5
    r1 = gen.rand_dims(rng, d1, 3)
    c1 = [1] * d1 if vec else gen.rand_dims(rng, d1, 2)
    r2 = gen.rand_dims(rng, d2, 3)
    c2 = [1] * d2 if vec else gen.rand_dims(rng, d2, 2)
    s1 = slice(d1 - k, d1) if mode.startswith('last') else slice(0, k)
    s2 = slice(d2 - k, d2) if mode.endswith('last') else slice(0, k)
    r2[s2] = r1[s1]
    c2[s2] = c1[s1]
    ca, cb = gen.rand_cplx(rng), gen.rand_cplx(rng)
    ba, bb = (1, 1), (1, 1)
    if rng.random() < 0.2:
        # boundary ranks larger than 1 on the sides that are NOT contracted (factors of an svd, pieces of a longer train)
        fa, fb = int(rng.integers(1, 4)), int(rng.integers(1, 4))
        ba = (fa, 1) if mode.startswith('last') else (1, fa)
        bb = (1, fb) if mode.endswith('first') else (fb, 1)
    a = gen.rand_tt(rng, r1, c1, gen.rand_ranks(rng, d1, 3, boundary=ba), ca)
    b = gen.rand_tt(rng, r2, c2, gen.rand_ranks(rng, d2, 3, boundary=bb), cb)
    ctx.describe({'op': 'tensordot', 'mode': mode, 'd1': d1, 'd2': d2, 'k': k, 'overwrite': ow, 'a': [r1, c1, a.ranks], 'b': [r2, c2, b.ranks]})
    a_cores = gen.clone_cores(a.cores)  # (a itself is rewritten by the call below when overwrite is on)
    kk_ = gen.as_int(rng, k)  # (the number of contracted axes as Python int or any NumPy integer type, unsigned ones included)
    call('TT.tensordot', lambda: a.tensordot(b, kk_, mode=mode, overwrite=ow), prop=P, tags=['mode=' + mode])
    if idx % 4 == 0:
        # a train contracted with itself (both operands are one object), with and without overwriting it
        kk = int(rng.integers(1, d1 + 1))
        sa = slice(d1 - kk, d1) if mode.startswith('last') else slice(0, kk)
        sb = slice(d1 - kk, d1) if mode.endswith('last') else slice(0, kk)
        if r1[sa] == r1[sb] and c1[sa] == c1[sb] and ba == (1, 1):
            for ow2 in (False, True):
                with probe.oracle():
                    t = tt.TT(gen.clone_cores(a_cores))
                kk2 = gen.as_int(rng, kk)
                call('TT.tensordot', lambda: t.tensordot(t, kk2, mode=mode, overwrite=ow2), prop=P, tags=['mode=' + mode, 'self_with_self'])
    if idx < 3:
        ctx.sample({'workload': 'tensordot', 'mode': mode, 'num_axes': k, 'overwrite': ow, 'self': {'row': r1, 'col': c1, 'ranks': a.ranks},
                    'other': {'row': r2, 'col': c2, 'ranks': b.ranks}})
    if idx % 9 == 0:
        expect_refusal('TT.tensordot', lambda: a.tensordot(b, max(d1, d2) + 1, mode=mode))
        expect_refusal('TT.tensordot', lambda: a.tensordot(b, k, mode='middle'))


def w_rank_tensordot(ctx, rng, idx):
    d = int(rng.integers(1, 5))
    rows, cols = gen.rand_dims(rng, d, 3), gen.rand_dims(rng, d, 2)
    r0, rd = int(rng.integers(1, 4)), int(rng.integers(1, 4))
    ranks = gen.rand_ranks(rng, d, 3, boundary=(r0, rd))
    a = gen.rand_tt(rng, rows, cols, ranks, gen.rand_cplx(rng))
    mode = ['first', 'last'][int(rng.integers(0, 2))]
    k = int(rng.integers(1, 4))
    M = gen.randn(rng, (rd, k) if mode == 'last' else (k, r0), bool(rng.integers(0, 2)))
    ow = bool(rng.integers(0, 2))
    ctx.describe({'op': 'rank_tensordot', 'mode': mode, 'ranks': ranks, 'matrix': list(M.shape), 'overwrite': ow})
    if rng.random() < 0.15:
        # the matrix as another 2-D array type: np.matrix (what np.asmatrix / sparse.todense() hand out), a masked array with nothing masked
        M = np.asmatrix(M) if rng.random() < 0.5 else np.ma.masked_array(M)
    call('TT.rank_tensordot', lambda: a.rank_tensordot(M, mode=mode, overwrite=ow), prop=P)


def w_concatenate(ctx, rng, idx):
    d1, d2 = int(rng.integers(1, 4)), int(rng.integers(1, 4))
    mid = int(rng.integers(1, 4)) if rng.random() < 0.6 else 1
    r0, re = (int(rng.integers(1, 3)), int(rng.integers(1, 3))) if rng.random() < 0.3 else (1, 1)
    a = gen.rand_tt(rng, gen.rand_dims(rng, d1, 3), gen.rand_dims(rng, d1, 2), gen.rand_ranks(rng, d1, 3, boundary=(r0, mid)), gen.rand_cplx(rng))
    b = gen.rand_tt(rng, gen.rand_dims(rng, d2, 3), gen.rand_dims(rng, d2, 2), gen.rand_ranks(rng, d2, 3, boundary=(mid, re)), gen.rand_cplx(rng))
    ow = bool(rng.integers(0, 2))
    aslist = bool(rng.integers(0, 2))
    ctx.describe({'op': 'concatenate', 'a_ranks': a.ranks, 'b_ranks': b.ranks, 'list': aslist, 'overwrite': ow})
    other = [c.copy() for c in b.cores] if aslist else b
    call('TT.concatenate', lambda: a.concatenate(other, overwrite=ow), prop=P)
    if idx % 8 == 0:
        bad = gen.rand_tt(rng, [2], [1], [mid + 1, 1])
        expect_refusal('TT.concatenate', lambda: a.concatenate(bad))


def w_refused(ctx, rng, idx):
    """in-place variants called with operands that do not fit (rank / dimension mismatch, wrong matrix shape): the call is refused and the
    caller goes on with the same object - which must still be the train it was (judged in the wrapper), and ordinary operations follow"""
    d = int(rng.integers(1, 5))
    a = gen.rand_tt(rng, gen.rand_dims(rng, d, 3), gen.rand_dims(rng, d, 2), gen.rand_ranks(rng, d, 3, boundary=(int(rng.integers(1, 3)), int(rng.integers(1, 3)))), gen.rand_cplx(rng))
    k = int(rng.integers(0, 4))
    ctx.describe({'op': 'refused in-place call, then ordinary use', 'kind': ['concatenate', 'concatenate (later core does not fit)', 'tensordot', 'rank_tensordot'][k], 'rows': a.row_dims, 'cols': a.col_dims, 'ranks': a.ranks})
    if k == 0:
        dd = int(rng.integers(1, 3))
        bad = gen.rand_tt(rng, gen.rand_dims(rng, dd, 3), [1] * dd, gen.rand_ranks(rng, dd, 3, boundary=(a.ranks[-1] + 1, 1)))
        other = bad if rng.random() < 0.5 else [c.copy() for c in bad.cores]
        refused_then_used('TT.concatenate', a.concatenate, other, overwrite=True)
    elif k == 1:
        # a core list whose FIRST core fits and a later one does not
        r = a.ranks[-1]
        other = [gen.randn(rng, (r, 2, 1, 2), False), gen.randn(rng, (3, 2, 1, 1), False)]
        refused_then_used('TT.concatenate', a.concatenate, other, overwrite=True)
    elif k == 2:
        b = gen.rand_tt(rng, [x + 1 for x in a.row_dims], list(a.col_dims), gen.rand_ranks(rng, d, 3))
        refused_then_used('TT.tensordot', a.tensordot, b, d, mode=['last-first', 'first-last', 'last-last', 'first-first'][int(rng.integers(0, 4))], overwrite=True)
    else:
        M = gen.randn(rng, (a.ranks[-1] + 1, 2), False)
        refused_then_used('TT.rank_tensordot', a.rank_tensordot, M, mode='last', overwrite=True)
    # ordinary use afterwards
    ok = gen.rand_tt(rng, [2], [1], [a.ranks[-1], 1])
    call('TT.concatenate', a.concatenate, ok, prop=P, overwrite=bool(rng.integers(0, 2)), tags=['after_refused_call'])
    call('TT.rank_transpose', a.rank_transpose, prop=P, overwrite=bool(rng.integers(0, 2)), tags=['after_refused_call'])


def w_rank_transpose(ctx, rng, idx):
    d = int(rng.integers(1, 6))
    bnd = (int(rng.integers(1, 3)), int(rng.integers(1, 3))) if rng.random() < 0.4 else (1, 1)
    a = gen.rand_tt(rng, gen.rand_dims(rng, d, 3), gen.rand_dims(rng, d, 3), gen.rand_ranks(rng, d, 4, boundary=bnd), gen.rand_cplx(rng))
    ow = bool(rng.integers(0, 2))
    ctx.describe({'op': 'rank_transpose', 'dims': [a.row_dims, a.col_dims], 'ranks': a.ranks, 'overwrite': ow})
    call('TT.rank_transpose', lambda: a.rank_transpose(overwrite=ow), prop=P)


def enum_diag(tier):
    out = []
    for d in range(1, 5):
        for n in range(0, d + 1):
            for sub in itertools.combinations(range(d), n):
                out.append((d, list(sub)))
    return out * (1 if tier == 'quick' else 8)


def w_diag(ctx, rng, idx, param):
    d, sub = param
    rows = gen.rand_dims(rng, d, 3)
    cols = [1] * d
    if rng.random() < 0.3:  # modes that are not diagonalised may be operator modes
        for i in range(d):
            if i not in sub:
                cols[i] = int(rng.integers(1, 3))
    a = gen.rand_tt(rng, rows, cols, gen.rand_ranks(rng, d, 3), gen.rand_cplx(rng))
    if rng.random() < 0.25:
        # tiny / huge overall magnitude, or the scale spread unevenly over the cores (1e15 in one core, 1e-15 in another)
        with probe.oracle():
            k = int(rng.integers(0, 3))
            cs = [np.array(c, copy=True) for c in a.cores]
            if k == 0:
                j = int(rng.integers(0, d))
                cs[j] = cs[j] * 10.0 ** float(rng.uniform(-100, -20))
            elif k == 1:
                for j in range(d):
                    cs[j] = cs[j] * 10.0 ** float(rng.uniform(-30, -10))
            elif d > 1:
                i, j = (int(v) for v in rng.choice(d, size=2, replace=False))
                e = float(rng.uniform(10, 16))
                cs[i], cs[j] = cs[i] * 10.0 ** e, cs[j] * 10.0 ** (-e)
            a = tt.TT(cs)
    if rng.random() < 0.25:
        # modes counted from the back (Python / NumPy index semantics: -1 is the last mode), mixed with ordinary positions
        sub = [int(i) - d if rng.random() < 0.6 else int(i) for i in sub]
    ctx.describe({'op': 'diag', 'rows': rows, 'cols': cols, 'ranks': a.ranks, 'diag_list': sub})
    ok_, res_ = call('TT.diag', lambda: a.diag(sub), prop=P)
    if ok_ and rng.random() < 0.3:
        # the selection handed over as a one-shot iterable (generator expression, iter / reversed / filter / map object): same train
        # (the contract needs a re-readable argument: the iterator form is compared with the list form, which the contract has judged)
        form = int(rng.integers(0, 4))
        lst = list(sub)
        it = [iter(lst), (i for i in lst), reversed(lst[::-1]), map(int, lst)][form]
        try:
            with probe.oracle():
                res_it = a.diag(it)
            same = list(res_it.col_dims) == list(res_.col_dims) and list(res_it.row_dims) == list(res_.row_dims) and all(np.array_equal(x, y) for x, y in zip(res_it.cores, res_.cores))
            ctx.check('TT.diag', 'selection_as_one_shot_iterator_equals_list', same, [], {'form': form, 'diag_list': lst, 'col_dims': list(res_it.col_dims), 'want': list(res_.col_dims)} if not same else None, prop=P)
        except Exception as e:  # noqa
            ctx.exception('TT.diag', e, tags=['selection_as_one_shot_iterator'], prop=P)


def enum_squeeze(tier):
    out = []
    for d in range(1, 6):
        for mask in itertools.product([0, 1], repeat=d):
            if any(mask):  # at least one mode larger than 1 (no TT of order 0 exists)
                out.append(list(mask))
    out = out * (1 if tier == 'quick' else 6)
    # long trains with few mode-carrying cores (what measuring a few sites of a long register produces) and with many
    rs = np.random.default_rng(12345)
    for d in (9, 10, 11, 12, 14, 16, 17, 20, 24) * (1 if tier == 'quick' else 4):
        for few in (True, True, False):
            m = [0] * d
            k = int(rs.integers(1, 5)) if few else int(rs.integers(5, 11))
            for j in rs.choice(d, size=min(k, d), replace=False):
                m[int(j)] = 1
            out.append(m)
    return out


def w_squeeze(ctx, rng, idx, mask):
    d = len(mask)
    rows, cols = [], []
    for m in mask:
        if m:
            r, c = (int(rng.integers(1, 4)), int(rng.integers(1, 3))) if d <= 8 else (2, 1)
            if r * c == 1:
                r = 2
            rows.append(r)
            cols.append(c if rng.random() < 0.4 else 1)
            if rows[-1] * cols[-1] == 1:
                rows[-1] = 2
        else:
            rows.append(1)
            cols.append(1)
    rk = gen.rand_ranks(rng, d, 3)
    if rng.random() < 0.25:  # a block of tensors: open boundary ranks on either side
        rk[0], rk[-1] = int(rng.integers(1, 4)), int(rng.integers(1, 4))
    a = gen.rand_tt(rng, rows, cols, rk, gen.rand_cplx(rng))
    ctx.describe({'op': 'squeeze', 'rows': rows, 'cols': cols, 'ranks': a.ranks})
    call('TT.squeeze', a.squeeze, prop=P)
    if idx < 2:
        ctx.sample({'workload': 'squeeze', 'rows': rows, 'cols': cols, 'ranks': a.ranks})


def factorizations(n, maxlen=3):
    out = []

    def rec(rem, cur):
        if len(cur) <= maxlen and rem == 1 and cur:
            out.append(list(cur))
        if len(cur) >= maxlen:
            return
        for f in range(1, rem + 1):
            if rem % f == 0 and (f > 1 or rng_allow_one):
                rec(rem // f, cur + [f])
    rng_allow_one = True
    rec(n, [])
    return [f for f in out if int(np.prod(f)) == n]


FACT = {n: factorizations(n) for n in (1, 2, 3, 4, 6, 8)}


def w_qtt(ctx, rng, idx):
    d = int(rng.integers(1, 4))
    sizes = [1, 2, 3, 4, 6, 8]
    rows = [sizes[int(rng.integers(0, 6))] for _ in range(d)]
    vec = rng.random() < 0.5
    cols = [1] * d if vec else [sizes[int(rng.integers(0, 4))] for _ in range(d)]
    while np.prod(rows) * np.prod(cols) > 4096:
        i = int(rng.integers(0, d))
        rows[i] = 2
        cols[i] = 1 if vec else 2
    rf, cf = [], []
    for i in range(d):
        fr = FACT[rows[i]][int(rng.integers(0, len(FACT[rows[i]])))]
        fc = FACT[cols[i]][int(rng.integers(0, len(FACT[cols[i]])))]
        L = max(len(fr), len(fc))
        fr = fr + [1] * (L - len(fr))
        fc = fc + [1] * (L - len(fc))
        if rng.random() < 0.5:
            perm = rng.permutation(L)
            fr = [fr[j] for j in perm]
        rf.append(fr)
        cf.append(fc)
    a = gen.rand_tt(rng, rows, cols, gen.rand_ranks(rng, d, 3), gen.rand_cplx(rng))
    ctx.describe({'op': 'tt2qtt/qtt2tt', 'rows': rows, 'cols': cols, 'row_factors': rf, 'col_factors': cf, 'ranks': a.ranks})
    ok, q = call('TT.tt2qtt', lambda: a.tt2qtt(rf, cf), prop=P)
    if ok and isinstance(q, tt.TT):
        mn = [len(f) for f in rf]
        ok2, back = call('TT.qtt2tt', lambda: q.qtt2tt(mn), prop=P)
        if ok2 and isinstance(back, tt.TT):
            with __import__('vt.probe', fromlist=['oracle']).oracle():
                good = list(back.row_dims) == rows and list(back.col_dims) == cols and close(dense(back), dense(a), 1e-9, scale=1e-4 * core_scale(a.cores))  # (a train may cancel to ~0: rounding noise scales with the cores)
            ctx.check('TT.qtt2tt', 'roundtrip_identity', good, [], {'rows': rows, 'cols': cols, 'rf': rf, 'cf': cf}, prop=P)
        # merging in a different grouping than the split
        if q.order >= 2:
            cut = int(rng.integers(1, q.order))
            call('TT.qtt2tt', lambda: q.qtt2tt([cut, q.order - cut]), prop=P)
    if idx < 2:
        ctx.sample({'workload': 'qtt', 'rows': rows, 'cols': cols, 'row_factors': rf, 'col_factors': cf, 'ranks': a.ranks})


def w_build_core(ctx, rng, idx):
    r1, r2 = int(rng.integers(1, 4)), int(rng.integers(1, 4))
    m, n = int(rng.integers(1, 4)), int(rng.integers(1, 4))
    kind = ['real', 'complex', 'mixed'][int(rng.integers(0, 3))]
    nested = bool(rng.integers(0, 2))
    vector_blocks = (not nested) and rng.random() < 0.3
    narrow = rng.random() < 0.25

    def block(i, j):
        if rng.random() < 0.3:
            return 0
        cplx = kind == 'complex' or (kind == 'mixed' and rng.random() < 0.5)
        x = gen.randn(rng, (m,), cplx) if vector_blocks else gen.randn(rng, (m, n), cplx)
        if narrow and rng.random() < 0.5:  # blocks of other precisions / integer blocks (complex64 is complex data, too)
            x = x.astype(np.complex64) if cplx else (x.astype(np.float32) if rng.random() < 0.5 else np.round(3 * x).astype(int))
        return x
    if nested:
        lst = [[block(i, j) for j in range(r2)] for i in range(r1)]
        if not any(isinstance(x, np.ndarray) for row in lst for x in row):
            lst[-1][-1] = gen.randn(rng, (m, n), kind != 'real')
        if not isinstance(lst[-1][-1], np.ndarray):  # the library reads the shape of the last element inspected
            lst[-1][-1] = gen.randn(rng, (m, n), kind == 'complex')
    else:
        lst = [block(i, 0) for i in range(r1)]
        if not any(isinstance(x, np.ndarray) for x in lst):
            lst[0] = gen.randn(rng, (m,) if vector_blocks else (m, n), kind != 'real')
    flag = bool(rng.integers(0, 2)) if kind != 'real' else (rng.random() < 0.2)
    ctx.describe({'op': 'build_core', 'r1': r1, 'r2': r2 if nested else 1, 'm': m, 'n': n, 'kind': kind, 'nested': nested, 'iscomplex': flag,
                  'zeros': [[not isinstance(x, np.ndarray) for x in row] for row in lst] if nested else [not isinstance(x, np.ndarray) for x in lst]})
    tags = ['kind=' + kind, 'nested' if nested else 'flat', 'flag=%s' % flag]
    call('tt.build_core', lambda: tt.build_core(lst, iscomplex=flag), prop=P, tags=tags)
    if not nested:
        call('tt.build_core_vector', lambda: tt.build_core_vector(lst, 'complex' if flag else 'float'), prop=P, tags=tags)
    if idx < 2:
        ctx.sample({'workload': 'build_core', 'r1': r1, 'r2': r2, 'm': m, 'n': n, 'kind': kind, 'nested': nested, 'iscomplex': flag})


WORKLOADS = [
    Workload('tensordot', w_tensordot, None, None, enum=enum_tensordot),
    Workload('rank_tensordot', w_rank_tensordot, 150, 3000),
    Workload('concatenate', w_concatenate, 150, 3000),
    Workload('refused', w_refused, 120, 2000),
    Workload('rank_transpose', w_rank_transpose, 120, 2000),
    Workload('diag', w_diag, None, None, enum=enum_diag),
    Workload('squeeze', w_squeeze, None, None, enum=enum_squeeze),
    Workload('qtt', w_qtt, 250, 4000),
    Workload('build_core', w_build_core, 300, 4000),
    ambient.WORKLOAD,
]

REQUIRED = ['C02|TT.tensordot:value', 'C02|TT.tensordot:value_complete', 'C02|TT.rank_tensordot:value', 'C02|TT.concatenate:value',
            'C02|TT.rank_transpose:value', 'C02|TT.diag:value', 'C02|TT.squeeze:value', 'C02|TT.tt2qtt:value', 'C02|TT.qtt2tt:value',
            'C02|TT.qtt2tt:roundtrip_identity', 'C02|tt.build_core:blocks', 'C02|tt.build_core_vector:blocks']
