"""C06 - operands keep their value: no hidden mutation or aliasing across calls (histories).

Monitors: M4 shadow pool (every live object is bitwise-compared with its snapshot after every step; only the
declared in-place target of the step may differ), M4 argument contracts on every monitored routine, M5 LAPACK
alias observer (overwritten buffer shared with another registered live object, reported at the moment it happens),
M3 invariant on every returned / live object (also through icontract.invariant on the class)."""
import os

import numpy as np

from .. import gen, probe, core
from ..dense import Snap, tt_consistent, shape_sig_cores, dense_size, MAX_DENSE
from ..drive import call
from ..shard import Workload
from ._common import arm_tt

P = 'C06'
tt = None
MODES = ['last-first', 'last-last', 'first-last', 'first-first']


def setup(ctx):
    global tt
    tt = arm_tt(ctx)
    from . import c06_solvers
    c06_solvers.setup(ctx)


# ---- shadow pool ----------------------------------------------------------------------------------------

class Pool(object):
    def __init__(self, ctx):
        self.ctx = ctx
        self.items = []  # [obj, name, Snap]
        self.history = []

    def add(self, obj, name):
        if not isinstance(obj, tt.TT):
            return
        for it in self.items:
            if it[0] is obj:
                return
        with probe.oracle():
            ok, why = tt_consistent(obj)
            self.ctx.check('pool', 'live_object_consistent', ok, ['producer=' + name.split('#')[0]] if not ok else (), {'why': why, 'name': name}, prop=P)
            if not ok:
                return
            if dense_size(obj.cores) > 2 ** 20:  # products of a long history: not kept as operands (full()/matricize() of them
                self.ctx.events['pool_object_too_large_not_kept'] += 1  # would only measure the machine's memory)
                return
            self.items.append([obj, name, Snap(obj)])
            probe.register_live(obj, name)

    def retire(self, obj):
        self.items = [it for it in self.items if it[0] is not obj]
        probe.unregister_live(obj)

    def audit(self, step, target=None):
        """every pool object except the declared target must be bitwise what it was"""
        with probe.oracle():
            for it in self.items:
                obj, name, snap = it
                if obj is target:
                    ok, why = tt_consistent(obj)
                    self.ctx.check('pool', 'target_consistent_after_inplace', ok, ['step=' + step] if not ok else (), {'why': why, 'step': step}, prop=P)
                    if ok:
                        it[2] = Snap(obj)
                    continue
                bit, d = snap.semantic_diff()
                if bit is not None and d is None:
                    self.ctx.events['live_object_gauge_changed_only:' + step] += 1
                    it[2] = Snap(obj)
                if d is not None:
                    sg = shape_sig_cores(snap.cores)
                    tags = ['step=' + step, 'victim=' + name.split('#')[0]]
                    tags += ['rank1bond'] if sg['rank1bond'] else []
                    tags += ['size1mode'] if sg['size1mode'] else []
                    self.ctx.check('pool', 'non_target_object_unchanged', False, tags,
                                   {'diff': d, 'victim': name, 'step': step, 'history': self.history[-8:], 'victim_shape': snap.shape_sig()}, prop=P)
                    ok, _ = tt_consistent(obj)
                    if ok:
                        it[2] = Snap(obj)  # report each corruption once
                    else:
                        self.items = [x for x in self.items if x[0] is not obj]
                        probe.unregister_live(obj)
                else:
                    self.ctx.check('pool', 'non_target_object_unchanged', True, prop=P)

    def pick(self, rng, pred=None):
        cands = [it[0] for it in self.items if pred is None or pred(it[0])]
        if not cands:
            return None
        return cands[int(rng.integers(0, len(cands)))]


def std(t):
    return t.ranks[0] == 1 and t.ranks[-1] == 1


def isvec(t):
    return all(c == 1 for c in t.col_dims)


def is_zero(t):
    """the exactly-zero tensor (e.g. a - a): relative thresholds are 0/0 on it -> inadmissible for truncating calls.  (The crash of the plain
    sweeps on zero cores was repaired in the library - 8e8d10b, driven in C04 - but svd / pinv of a zero tensor remain undefined (1 / 0), so
    (numerically) zero tensors stay out of the truncating consumers of the histories; VERIF_C06_ADMIT_ZERO=1 lets them in for experiments)"""
    if os.environ.get('VERIF_C06_ADMIT_ZERO'):
        return False
    with probe.oracle():
        try:
            from ..dense import dense_b
            x = dense_b(t)
            if not np.any(x):
                return True
            # numerically zero (a - a in another gauge, cancelling sums): an orthonormalisation sweep may turn the remaining
            # rounding noise into an exact 0, after which the relative cut is 0/0 just the same
            scale = float(np.prod([np.linalg.norm(np.asarray(c).ravel()) for c in t.cores]))
            return float(np.abs(x).max()) <= 1e-11 * scale
        except Exception:
            return True


# ---- step catalogue ---------------------------------------------------------------------------------------
# producers: fn(pool, rng) -> (name, [results]) or None if not applicable;  never mutate operands by contract

def p_add(pool, rng):
    a = pool.pick(rng)
    b = pool.pick(rng, lambda t: t.row_dims == a.row_dims and t.col_dims == a.col_dims and std(t) and std(a))
    if b is None:
        return None
    ok, r = call('TT.__add__', lambda: a + b, prop=P)
    return 'add', [r] if ok else []


def p_sub(pool, rng):
    a = pool.pick(rng)
    b = pool.pick(rng, lambda t: t.row_dims == a.row_dims and t.col_dims == a.col_dims and std(t) and std(a))
    if b is None:
        return None
    ok, r = call('TT.__sub__', lambda: a - b, prop=P)
    return 'sub', [r] if ok else []


def p_mul(pool, rng):
    a = pool.pick(rng)
    s = gen.rand_scalar(rng)
    if rng.random() < 0.5:
        ok, r = call('TT.__mul__', lambda: a * s, prop=P)
    else:
        ok, r = call('TT.__rmul__', lambda: s * a, prop=P)
    return 'mul', [r] if ok else []


def p_matmul(pool, rng):
    a = pool.pick(rng, std)
    if a is None:
        return None
    b = pool.pick(rng, lambda t: std(t) and t.row_dims == a.col_dims)
    if b is None:
        at = a.transpose() if rng.random() < 0.5 else None
        if at is None:
            return None
        ok, r = call('TT.__matmul__', lambda: at @ a, prop=P)
        return 'matmul', ([r, at] if ok else [at])
    ok, r = call('TT.__matmul__', lambda: a @ b, prop=P)
    return 'matmul', [r] if ok and isinstance(r, tt.TT) else []


def _tensordot_args(pool, rng):
    a = pool.pick(rng, std)
    if a is None:
        return None
    mode = MODES[int(rng.integers(0, 4))]
    for _ in range(6):
        b = pool.pick(rng, std)
        kmax = min(a.order, b.order)
        ks = list(range(1, kmax + 1))
        rng.shuffle(ks)
        for k in ks:
            sa = slice(a.order - k, a.order) if mode.startswith('last') else slice(0, k)
            sb = slice(b.order - k, b.order) if mode.endswith('last') else slice(0, k)
            if a.row_dims[sa] == b.row_dims[sb] and a.col_dims[sa] == b.col_dims[sb]:
                return a, b, k, mode
    return None


def p_tensordot(pool, rng):
    x = _tensordot_args(pool, rng)
    if x is None:
        return None
    a, b, k, mode = x
    ok, r = call('TT.tensordot', lambda: a.tensordot(b, k, mode=mode), prop=P)
    return 'tensordot', [r] if ok else []


def p_concatenate(pool, rng):
    a = pool.pick(rng)
    b = pool.pick(rng, lambda t: t.ranks[0] == a.ranks[-1] and t.order + a.order <= 7)
    if b is None:
        return None
    if rng.random() < 0.3:
        ok, r = call('TT.concatenate', lambda: a.concatenate(list(b.cores)), prop=P)
    else:
        ok, r = call('TT.concatenate', lambda: a.concatenate(b), prop=P)
    return 'concatenate', [r] if ok else []


def p_rank_tensordot(pool, rng):
    a = pool.pick(rng)
    if rng.random() < 0.5:
        M = gen.randn(rng, (a.ranks[-1], int(rng.integers(1, 3))))
        ok, r = call('TT.rank_tensordot', lambda: a.rank_tensordot(M, mode='last'), prop=P)
    else:
        M = gen.randn(rng, (int(rng.integers(1, 3)), a.ranks[0]))
        ok, r = call('TT.rank_tensordot', lambda: a.rank_tensordot(M, mode='first'), prop=P)
    return 'rank_tensordot', [r] if ok else []


def p_unary(pool, rng):
    a = pool.pick(rng)
    k = int(rng.integers(0, 5))
    name = ['transpose', 'transpose_conj', 'conj', 'copy', 'rank_transpose'][k]
    fn = [a.transpose, lambda: a.transpose(conjugate=True), a.conj, a.copy, a.rank_transpose][k]
    ok, r = call('TT.' + name.split('_conj')[0], fn, prop=P)
    return name, [r] if ok else []


def p_diag(pool, rng):
    a = pool.pick(rng, lambda t: std(t) and isvec(t))
    if a is None:
        return None
    lst = [i for i in range(a.order) if rng.random() < 0.5]
    ok, r = call('TT.diag', lambda: a.diag(lst), prop=P)
    return 'diag', [r] if ok else []


def p_squeeze(pool, rng):
    a = pool.pick(rng, lambda t: std(t) and any(r * c > 1 for r, c in zip(t.row_dims, t.col_dims)))
    if a is None:
        return None
    ok, r = call('TT.squeeze', a.squeeze, prop=P)
    return 'squeeze', [r] if ok else []


def p_qtt(pool, rng):
    a = pool.pick(rng, std)
    if a is None:
        return None
    rf, cf = [], []
    for m, n in zip(a.row_dims, a.col_dims):
        if m % 2 == 0 and m > 2 and n == 1:
            rf.append([2, m // 2])
            cf.append([1, 1])
        elif m > 1 and rng.random() < 0.3:
            rf.append([1, m])
            cf.append([1, n])
        else:
            rf.append([m])
            cf.append([n])
    ok, q = call('TT.tt2qtt', lambda: a.tt2qtt(rf, cf), prop=P)
    out = [q] if ok else []
    if ok and isinstance(q, tt.TT):
        ok2, b = call('TT.qtt2tt', lambda: q.qtt2tt([len(f) for f in rf]), prop=P)
        if ok2:
            out.append(b)
    return 'tt2qtt', out


def p_svd(pool, rng):
    a = pool.pick(rng, lambda t: std(t) and isvec(t) and t.order >= 2 and not is_zero(t))
    if a is None:
        return None
    idx = int(rng.integers(1, a.order))
    if rng.random() < 0.5:
        ok, r = call('TT.svd', lambda: a.svd(idx), prop=P)
        return 'svd', ([r[0], r[2]] if ok else [])
    ok, r = call('TT.pinv', lambda: a.pinv(idx, threshold=1e-10), prop=P)
    return 'pinv', [r] if ok else []


def p_reads(pool, rng):
    a = pool.pick(rng, lambda t: std(t) and dense_size(t.cores) <= MAX_DENSE)
    if a is None:
        return None
    call('TT.norm', a.norm, prop=P)
    call('TT.full', a.full, prop=P)
    call('TT.matricize', a.matricize, prop=P)
    call('TT.element', lambda: a.element([0] * (2 * a.order)), prop=P)
    b = pool.pick(rng, lambda t: std(t) and isvec(t))
    if b is not None and all(np.all(np.isreal(c)) and np.all(np.real(c) >= 0) for c in b.cores):
        call('TT.norm', lambda: b.norm(p=1), prop=P)
    return 'reads', []


def p_from_array(pool, rng):
    a = pool.pick(rng, lambda t: std(t) and int(np.prod(t.row_dims)) * int(np.prod(t.col_dims)) <= 2048)
    if a is None:
        return None
    ok, x = call('TT.full', a.full, prop=P)
    if not ok or not np.any(x):  # the exactly-zero array with a relative threshold is 0/0: inadmissible
        return 'from_array', []
    ok, r = call('TT.__init__', lambda: tt.TT(x, threshold=1e-12), prop=P)
    return 'from_array', [r] if ok else []


def p_constructor(pool, rng):
    """the module-level constructors with the dimensions of a pool object (all pool objects of a history share their row dimensions,
    so the same identity / zero / unit tensor is requested again and again between in-place operations on earlier results)"""
    a = pool.pick(rng, std)
    if a is None:
        return None
    rows, cols = list(a.row_dims), list(a.col_dims)
    k = int(rng.integers(0, 6))
    if k <= 1:
        ok, r = call('tt.eye', tt.eye, rows, prop=P)
    elif k == 2:
        ok, r = call('tt.zeros', tt.zeros, rows, cols, prop=P)
    elif k == 3:
        ok, r = call('tt.ones', tt.ones, rows, cols, prop=P)
    elif k == 4:
        ok, r = call('tt.unit', tt.unit, rows, [0] * len(rows), prop=P)
    else:
        ok, r = call('tt.uniform', tt.uniform, rows, prop=P)
    return 'constructor', [r] if ok else []


PRODUCERS = [p_add, p_sub, p_mul, p_matmul, p_tensordot, p_tensordot, p_concatenate, p_concatenate, p_rank_tensordot, p_unary, p_diag,
             p_squeeze, p_qtt, p_svd, p_reads, p_from_array, p_constructor, p_constructor]


# consumers: documented in-place; fn(pool, rng, target) -> (name, returned objects, retire_target)

def c_ortho_left(pool, rng, t):
    ok, r = call('TT.ortho_left', t.ortho_left, prop=P)
    return 'ortho_left', [], False


def c_ortho_right(pool, rng, t):
    ok, r = call('TT.ortho_right', t.ortho_right, prop=P)
    return 'ortho_right', [], False


def c_ortho(pool, rng, t):
    ok, r = call('TT.ortho', t.ortho, prop=P)
    return 'ortho', [], False


def c_ortho_trunc(pool, rng, t):
    if is_zero(t):
        return None
    if rng.random() < 0.5:
        ok, r = call('TT.ortho', lambda: t.ortho(max_rank=int(rng.integers(1, 3))), prop=P)
    else:
        ok, r = call('TT.ortho', lambda: t.ortho(threshold=1e-3), prop=P)
    return 'ortho_trunc', [], False


def c_imul(pool, rng, t):
    """augmented assignment `x *= c` on a live object (what normalisation code writes): whether the class implements it in place or
    Python falls back to `x = x * c`, no OTHER live object may change"""
    if is_zero(t):
        return None
    c = float(rng.uniform(0.5, 2.0)) * (1 if rng.random() < 0.7 else -1)
    x = t
    with probe.oracle():
        pass
    try:
        x *= c
    except Exception as e:  # noqa
        core.ctx().exception('TT.__imul__', e, prop=P)
        return None
    core.ctx().ran('TT.__imul__', prop=P)
    return 'imul', [x], False


def c_ortho_partial(pool, rng, t):
    if t.order < 2:
        return None
    if rng.random() < 0.5:
        s = int(rng.integers(0, t.order - 1))
        e = int(rng.integers(s, t.order - 1))
        call('TT.ortho_left', lambda: t.ortho_left(start_index=s, end_index=e), prop=P)
    else:
        s = int(rng.integers(1, t.order))
        e = int(rng.integers(1, s + 1))
        call('TT.ortho_right', lambda: t.ortho_right(start_index=s, end_index=e), prop=P)
    return 'ortho_partial', [], False


def c_unary_overwrite(pool, rng, t):
    k = int(rng.integers(0, 5))
    name = ['transpose', 'conj', 'rank_transpose', 'transpose', 'transpose'][k]
    sub = sorted(set(int(i) for i in rng.integers(0, t.order, size=int(rng.integers(1, t.order + 1)))))
    fn = [lambda: t.transpose(overwrite=True), lambda: t.conj(overwrite=True), lambda: t.rank_transpose(overwrite=True),
          lambda: t.transpose(conjugate=True, overwrite=True), lambda: t.transpose(cores=sub, conjugate=bool(rng.integers(0, 2)), overwrite=True)][k]
    ok, r = call('TT.' + name, fn, prop=P)
    return name + '_overwrite', [r] if ok else [], False


def c_tensordot_overwrite(pool, rng, t):
    if not std(t):
        return None
    mode = MODES[int(rng.integers(0, 4))]
    for _ in range(6):
        b = pool.pick(rng, std)
        for k in range(1, min(t.order, b.order) + 1):
            sa = slice(t.order - k, t.order) if mode.startswith('last') else slice(0, k)
            sb = slice(b.order - k, b.order) if mode.endswith('last') else slice(0, k)
            if t.row_dims[sa] == b.row_dims[sb] and t.col_dims[sa] == b.col_dims[sb] and b is not t:
                ok, r = call('TT.tensordot', lambda: t.tensordot(b, k, mode=mode, overwrite=True), prop=P)
                return 'tensordot_overwrite', [r] if ok else [], False
    return None


def c_concatenate_overwrite(pool, rng, t):
    b = pool.pick(rng, lambda u: u.ranks[0] == t.ranks[-1] and u.order + t.order <= 7 and u is not t)
    if b is None:
        return None
    ok, r = call('TT.concatenate', lambda: t.concatenate(b, overwrite=True), prop=P)
    return 'concatenate_overwrite', [r] if ok else [], False


def c_rank_tensordot_overwrite(pool, rng, t):
    M = gen.randn(rng, (t.ranks[-1], int(rng.integers(1, 3))))
    ok, r = call('TT.rank_tensordot', lambda: t.rank_tensordot(M, mode='last', overwrite=True), prop=P)
    return 'rank_tensordot_overwrite', [r] if ok else [], False


def c_svd_overwrite(pool, rng, t):
    if not (std(t) and isvec(t) and t.order >= 2):
        return None
    idx = int(rng.integers(1, t.order))
    if is_zero(t):
        return None
    if rng.random() < 0.5:
        ok, r = call('TT.svd', lambda: t.svd(idx, overwrite=True), prop=P)
        return 'svd_overwrite', ([r[0], r[2]] if ok else []), True
    ok, r = call('TT.pinv', lambda: t.pinv(idx, threshold=1e-10, overwrite=True), prop=P)
    return 'pinv_overwrite', [r] if ok else [], True


CONSUMERS = [c_ortho_left, c_ortho_right, c_ortho, c_ortho_trunc, c_ortho_partial, c_imul, c_unary_overwrite, c_tensordot_overwrite,
             c_concatenate_overwrite, c_rank_tensordot_overwrite, c_svd_overwrite]


# ---- initial pools ----------------------------------------------------------------------------------------

def initial_pool(ctx, rng, n=4):
    pool = Pool(ctx)
    d = int(rng.integers(1, 5))
    rows = gen.rand_dims(rng, d, 3, p_one=0.3)
    fam = int(rng.integers(0, 3))
    for j in range(n):
        if fam == 0 or (fam == 2 and j % 2 == 0):
            cols = [1] * d
        elif fam == 1:
            cols = list(rows)
        else:
            cols = list(rows)
        ranks = gen.rand_ranks(rng, d, 3, p_one=0.5)
        kind = 'nonneg' if rng.random() < 0.2 else 'gauss'
        t = gen.rand_tt(rng, rows, cols, ranks, gen.rand_cplx(rng) if kind == 'gauss' else False, kind=kind)
        pool.add(t, 'init#%d' % j)
    return pool


def step_producer(pool, rng, fn=None):
    fn = fn or PRODUCERS[int(rng.integers(0, len(PRODUCERS)))]
    out = fn(pool, rng)
    if out is None:
        return None
    name, results = out
    pool.history.append(name)
    pool.audit(name)
    for i, r in enumerate(results):
        if isinstance(r, tt.TT) and len(pool.items) < 10:
            pool.add(r, '%s#%d' % (name, len(pool.history)))
    return name


def step_consumer(pool, rng, fn=None, target=None):
    fn = fn or CONSUMERS[int(rng.integers(0, len(CONSUMERS)))]
    t = target if target is not None else pool.pick(rng)
    if t is None:
        return None
    out = fn(pool, rng, t)
    if out is None:
        return None
    name, results, retire = out
    pool.history.append(name + '!')
    if retire:
        pool.retire(t)
    pool.audit(name, target=t)
    for r in results:
        if isinstance(r, tt.TT) and r is not t and len(pool.items) < 10:
            pool.add(r, '%s#%d' % (name, len(pool.history)))
    return name


# ---- workloads --------------------------------------------------------------------------------------------

def w_histories(ctx, rng, idx):
    pool = initial_pool(ctx, rng, n=int(rng.integers(2, 5)))
    nsteps = int(rng.integers(4, 17))
    for s in range(nsteps):
        if rng.random() < 0.45:
            step_consumer(pool, rng)
        else:
            step_producer(pool, rng)
    ctx.describe({'history': pool.history, 'pool': [it[1] for it in pool.items]})
    ctx.sig('history', tuple(pool.history[:6]))
    if idx < 3:
        ctx.sample({'workload': 'histories', 'history': pool.history, 'live_objects_at_end': [[it[1], it[0].row_dims, it[0].ranks] for it in pool.items]})


SHAPES = [  # (rows, ranks): rank-1 bonds and size-1 modes at every position
    ([2, 2, 2], [1, 1, 1, 1]), ([2, 2, 2], [1, 2, 1, 1]), ([2, 2, 2], [1, 1, 2, 1]), ([2, 2, 2], [1, 2, 2, 1]),
    ([1, 2, 2], [1, 1, 2, 1]), ([2, 1, 2], [1, 2, 2, 1]), ([2, 2, 1], [1, 2, 1, 1]), ([2, 3], [1, 1, 1]), ([2, 3], [1, 2, 1]),
    ([3], [1, 1]), ([1, 1, 2], [1, 1, 1, 1]), ([2, 2, 2, 2], [1, 1, 1, 1, 1]), ([2, 2, 2, 2], [1, 2, 1, 2, 1]),
]


def enum_pairs(tier):
    out = []
    shapes = SHAPES[:5] if tier == 'quick' else SHAPES
    prods = sorted(set(PRODUCERS), key=lambda f: f.__name__)
    for si in range(len(shapes)):
        for p in prods:
            for c in CONSUMERS:
                for rep in range(1 if tier == 'quick' else 3):
                    out.append((si, p.__name__, c.__name__, rep))
    return out


BYNAME = {f.__name__: f for f in PRODUCERS + CONSUMERS}


def w_pairs(ctx, rng, idx, param):
    si, pn, cn, rep = param
    rows, ranks = SHAPES[si]
    d = len(rows)
    pool = Pool(ctx)
    cplx = bool(rng.integers(0, 2))
    pool.add(gen.rand_tt(rng, rows, [1] * d, ranks, cplx), 'init#0')
    pool.add(gen.rand_tt(rng, rows, [1] * d, gen.rand_ranks(rng, d, 2, p_one=0.6), False), 'init#1')
    pool.add(gen.rand_tt(rng, rows, rows, ranks, cplx), 'init#2')
    n0 = len(pool.items)
    name = None
    for _ in range(4):
        name = step_producer(pool, rng, BYNAME[pn])
        if name is not None:
            break
    if name is None:
        ctx.skip('pair_producer_not_applicable')
        return
    fresh = [it[0] for it in pool.items[n0:]]
    targets = fresh if fresh else [pool.items[0][0]]
    for t in targets:
        if any(it[0] is t for it in pool.items):
            step_consumer(pool, rng, BYNAME[cn], target=t)
    # a second in-place sweep on the same result (different side) and on a sibling
    for t in targets:
        if any(it[0] is t for it in pool.items):
            step_consumer(pool, rng, c_ortho_right if cn != 'c_ortho_right' else c_ortho_left, target=t)
    ctx.describe({'shape': [rows, ranks], 'producer': pn, 'consumer': cn, 'history': pool.history})
    ctx.sig('pair', si, pn, cn)
    if idx < 2:
        ctx.sample({'workload': 'pairs', 'rows': rows, 'ranks': ranks, 'producer': pn, 'consumer': cn, 'history': pool.history})


from . import ambient  # noqa: E402
from . import c06_solvers  # noqa: E402  (solver / integrator / data-driven routines called on pool objects)

WORKLOADS = [
    Workload('histories', w_histories, 400, 20000),
    Workload('pairs', w_pairs, None, None, enum=enum_pairs),
] + c06_solvers.WORKLOADS + [ambient.WORKLOAD]

REQUIRED = ['C06|pool:non_target_object_unchanged', 'C06|pool:live_object_consistent', 'C06|pool:target_consistent_after_inplace',
            'C06|TT.tensordot:argument_unchanged', 'C06|TT.__add__:argument_unchanged', 'C06|TT.svd:argument_unchanged',
            'C06|TT.squeeze:argument_unchanged', 'C06|TT.ortho_left:returned_tt_consistent', 'C06|TT:class_invariant',
            'C06|lapack:no_shared_buffer_clobbered'] + c06_solvers.REQUIRED
