"""C16 - MANDy and ARR return (descend to) the least-squares coefficient tensor.  Deciding monitors: Mandy/MandyKb/Arr
contracts (vt.monitors_regression) + driver clauses over repeat counts."""
import numpy as np

from .. import gen, probe, monitors_regression, monitors_transform, monitors_basis
from ..dense import dense
from ..drive import call
from ..shard import Workload
from ._common import arm_light
from .c15 import SCALAR_FUNS, rand_basis
from ..monitors_transform import pristine

P = 'C16'
tt = None
reg = None
tr = None


def setup(ctx):
    global tt, reg, tr
    tt = arm_light(ctx)
    tr = monitors_transform.install()
    monitors_basis.install()
    reg = monitors_regression.install()
    import vt.props.c15 as c15
    c15.tr = tr


def w_mandy(ctx, rng, idx):
    d = int(rng.integers(1, 4))
    p = int(rng.integers(1, 4))
    sel = [SCALAR_FUNS[int(k)] for k in rng.choice(len(SCALAR_FUNS), size=p, replace=False)]
    phi = [f for (_, f) in sel]
    N_cm, N_fm = p ** d, (d + 1) ** p
    kind = int(rng.integers(0, 3))
    m = [int(rng.integers(1, 4)), int(rng.integers(4, 9)), int(rng.integers(9, 16))][kind]
    x = gen.data_matrix(rng, (d, m))
    dup = rng.random() < 0.25 and m > 1
    if dup:
        x = np.array(x, copy=True)
        x[:, -1] = x[:, 0]  # duplicated snapshot: rank-deficient transformed data
    y = rng.standard_normal((d, m))
    thr = 1e-10 if (dup or rng.random() < 0.4) else 0.0
    with probe.oracle():  # data on common zeros of the basis functions: exactly-zero transformed tensor (0/0 in every relative cut)
        zero_cm = not any(np.any(c) for c in [dense(tr.coordinate_major(x, phi))])
        zero_fm = not np.any(dense(tr.function_major(x, phi, add_one=False)))
    if zero_cm or zero_fm:
        ctx.skip('mandy_transformed_data_tensor_is_zero')
        return
    ctx.describe({'op': 'mandy_cm/fm', 'd': d, 'm': m, 'functions': [n for (n, _) in sel], 'threshold': thr, 'duplicate_snapshot': dup})
    call('regression.mandy_cm', reg.mandy_cm, x, y, phi, prop=P, threshold=thr)
    ao = bool(rng.integers(0, 2))
    call('regression.mandy_fm', reg.mandy_fm, x, y, phi, prop=P, threshold=thr, add_one=ao)
    if rng.random() < 0.35:
        # thresholds close to the admissible extreme: 0.5 .. 0.93 times the smallest non-zero singular-value ratio of the unfoldings
        for name, fn, kw in (('mandy_cm', reg.mandy_cm, {}), ('mandy_fm', reg.mandy_fm, {'add_one': ao})):
            with probe.oracle():
                fac = monitors_regression.mandy_factors(name, x, [getattr(f, '__vt_plain__', f) for f in phi], ao)
                if int(np.prod([f.shape[0] for f in fac])) * m > 2 ** 14:
                    continue
                spectra = monitors_regression.mandy_spectra(fac)
                ratios = [float(v) for sp in spectra if sp.size and sp[0] > 0 for v in (sp / sp[0]) if v > 1e-9]
            if not ratios:
                continue
            t2 = float(rng.uniform(0.5, 0.93)) * min(ratios)
            call('regression.' + name, fn, x, y, phi, prop=P, tags=['threshold_near_smallest_ratio'], threshold=t2, **kw)
    if idx < 3:
        ctx.sample({'workload': 'mandy', 'state_dim': d, 'snapshots': m, 'functions': [n for (n, _) in sel], 'threshold': thr, 'duplicate_snapshot': dup})


def w_kb_model(ctx, rng, idx):
    """the use the kernel-based variant is made for: many basis functions (monomials of degree <= 4 or 5 per coordinate), fewer snapshots
    than basis functions, NOISE-FREE right-hand sides generated from a model in the span of the basis.  The Gram matrix is poorly
    conditioned (1e6..1e10) and the fitted values are nevertheless reproduced to many digits by a backward-stable solve"""
    d = int(rng.integers(1, 3))
    deg = int(rng.integers(3, 6))
    import scikit_tt.data_driven.transform as tr_
    bl = [[tr_.Monomial(i, k) for k in range(deg + 1)] for i in range(d)]
    N = (deg + 1) ** d
    m = int(rng.integers(max(2, N // 2), N + 1))
    x = rng.uniform(-1.0, 1.0, size=(d, m))
    with probe.oracle():
        A = monitors_transform.product_tensor([np.array([[float(f(x[:, j])) for j in range(m)] for f in fl]) for fl in bl]).reshape(N, m)
    xi = rng.standard_normal((int(rng.integers(1, 3)), N)) * (rng.random((1, N)) < 0.4)  # a sparse model, as in system identification
    y = xi @ A
    ctx.describe({'op': 'mandy_kb (noise-free model data)', 'd': d, 'm': m, 'degree': deg, 'functions': N, 'cond_Psi': float(np.linalg.cond(A))})
    call('regression.mandy_kb', reg.mandy_kb, x, y, bl, prop=P, refusals=(np.linalg.LinAlgError,), tags=['noise_free_model_data'])


def w_kb(ctx, rng, idx):
    d, m = int(rng.integers(1, 4)), int(rng.integers(1, 8))
    x = gen.data_matrix(rng, (d, m))
    dup = rng.random() < 0.25 and m > 1
    if dup:
        x = np.array(x, copy=True)
        x[:, -1] = x[:, 0]
    bl = rand_basis(rng, d)
    y = rng.standard_normal((int(rng.integers(1, 4)), m))
    if dup:
        y[:, -1] = y[:, 0]
    ctx.describe({'op': 'mandy_kb', 'd': d, 'm': m, 'modes': [[type(f).__name__ for f in fl] for fl in bl], 'duplicate_snapshot': dup})
    call('regression.mandy_kb', reg.mandy_kb, x, y, bl, prop=P, refusals=(np.linalg.LinAlgError,))


def arr_residual(x, y, bl, sols):
    with probe.oracle():
        m = x.shape[1]
        factors = [np.array([[float(f(x[:, j])) for j in range(m)] for f in fl]) for fl in pristine(bl)]
        A = monitors_transform.product_tensor(factors).reshape(-1, m)
        out = []
        for k, t in enumerate(sols):
            xi = dense(t).reshape(-1)
            out.append(float(np.linalg.norm(xi @ A - y[k])))
        return out


def w_arr(ctx, rng, idx):
    d, m = int(rng.integers(1, 4)), int(rng.integers(2, 10))
    x = gen.data_matrix(rng, (d, m))
    bl = rand_basis(rng, d)
    while len(bl) < 2:
        bl = rand_basis(rng, d)
    n = [len(f) for f in bl]
    p = len(n)
    y = rng.standard_normal((int(rng.integers(1, 3)), m))
    ranks = gen.feasible_ranks(n, [1] * p, [1] + [int(rng.integers(1, 4)) for _ in range(p - 1)] + [1])
    with probe.oracle():
        g = gen.rand_tt(rng, n, [1] * p, ranks)
    as_list = rng.random() < 0.3
    rc = [1e-14, 1e-14, 1e-13, 0, 0.0][int(rng.integers(0, 5))]  # negligible cut-offs, the smallest admissible one (exactly 0) included
    ctx.describe({'op': 'arr', 'rcond': rc, 'd': d, 'm': m, 'modes': n, 'ranks': ranks, 'list_guess': as_list, 'outputs': y.shape[0]})
    res = []
    r0 = None
    noise = 0.0
    warm = None
    if as_list and y.shape[0] > 1 and rng.random() < 0.6:
        # a warm start: one guess per right-hand side, all different (the results of an earlier short run on the same data, slightly
        # perturbed) - good guesses, so that any sweep started from the wrong tensor shows as an increase of the residual
        with probe.oracle():
            try:
                warm = reg.arr(x, y, bl, g, repeats=2, rcond=1e-12, progress=False)
                warm = [tt.TT([c * (1.0 + 1e-3 * rng.standard_normal()) for c in t.cores]) for t in warm]
            except Exception:
                warm = None
    for rep in (1, 2, 3):
        if as_list:
            with probe.oracle():
                guess = [tt.TT([c.copy() for c in (warm[k] if warm is not None else g).cores]) for k in range(y.shape[0])]
            if r0 is None:
                r0 = arr_residual(x, y, bl, guess)
        else:
            guess = g
            if r0 is None:
                r0 = arr_residual(x, y, bl, [g] * y.shape[0])
        ok, sol = call('regression.arr', reg.arr, x, y, bl, guess, prop=P, refusals=(np.linalg.LinAlgError,), repeats=rep, rcond=rc, progress=False)
        if not ok:
            return
        res.append(arr_residual(x, y, bl, sol))
        noise = max(noise, monitors_regression.LAST_NOISE)
        if monitors_regression.LAST_UNDECIDED:
            return
    ny = float(np.linalg.norm(y))
    # rcond=1e-14 keeps nearly singular directions of the micro problems: residuals are only determined up to their rounding noise
    tol = 1e-6 * ny + 1000 * noise
    if tol > 1e-3 * ny:
        ctx.skip('arr_micro_problems_too_ill_conditioned')
        return
    okd = all(res[0][k] <= r0[k] * (1 + 1e-6) + tol and res[1][k] <= res[0][k] * (1 + 1e-6) + tol and res[2][k] <= res[1][k] * (1 + 1e-6) + tol for k in range(y.shape[0]))
    ctx.check('regression.arr', 'residual_non_increasing_in_repeats', okd, ['list_guess' if as_list else 'tt_guess'], {'guess': r0, 'repeats_1_2_3': res, 'modes': n, 'ranks': ranks}, prop=P)
    if idx < 2:
        ctx.sample({'workload': 'arr', 'modes': n, 'snapshots': m, 'ranks': ranks, 'residual_guess': r0, 'residual_by_repeats': res})


WORKLOADS = [
    Workload('mandy', w_mandy, 240, 5000),
    Workload('kernel', w_kb, 160, 3000),
    Workload('kernel_model_data', w_kb_model, 60, 1500),
    Workload('arr', w_arr, 160, 3000),
]
REQUIRED = ['C16|regression.mandy_cm:equals_y_times_pseudoinverse', 'C16|regression.mandy_fm:equals_y_times_pseudoinverse',
            'C16|regression.mandy_kb:reproduces_fitted_values_of_pseudoinverse_solution', 'C16|regression.arr:micro_step_residuals_non_increasing',
            'C16|regression.arr:residual_non_increasing_in_repeats', 'C16|regression.arr:ranks_of_guess_kept', 'C06|regression.arr:argument_unchanged']
