"""C07 - ALS/MALS linear solvers: energy descent, fixed point, exactness at full rank.
Monitors: M6 environment oracle on the micro matrices / right-hand sides at every micro-step (vt.monitors_sle),
M7 energy trace + sweep order, end-to-end contract on sle.als/sle.mals, and driver-level multi-call clauses
(repeats 1,2,3 monotone; exact solution as guess is a fixed point; maximal-rank guess => exact after one sweep)."""
import numpy as np

from .. import gen, probe, monitors_sle
from ..dense import dense, mat, core_scale
from ..drive import call
from ..shard import Workload
from ._common import arm_light

P = 'C07'
tt = None
sle = None


def setup(ctx):
    global tt, sle
    tt = arm_light(ctx)
    sle = monitors_sle.install()


def hpd_operator(rng, dims, cplx):
    """Hermitian positive-definite TT operators of three kinds"""
    d = len(dims)
    k = int(rng.integers(0, 3))
    with probe.oracle():
        if k == 0:
            return gen.hermitian_tt(rng, dims, int(rng.integers(1, 3)), cplx, hpd=True, eps=float(rng.uniform(0.2, 1.0))), 'BhB+eps'
        # sum of local HPD terms (+ weak nearest-neighbour couplings)
        total = None
        for i in range(d):
            cores = [np.eye(m).reshape(1, m, m, 1) for m in dims]
            h = gen.randn(rng, (dims[i], dims[i]), cplx)
            h = h @ h.conj().T + np.eye(dims[i])
            cores[i] = h.reshape(1, dims[i], dims[i], 1)
            term = tt.TT(cores)
            total = term if total is None else total + term
        if k == 2 and d > 1:
            for i in range(d - 1):
                cores = [np.eye(m).reshape(1, m, m, 1) for m in dims]
                a = gen.randn(rng, (dims[i], dims[i]), cplx)
                b = gen.randn(rng, (dims[i + 1], dims[i + 1]), cplx)
                a = (a + a.conj().T) / 2
                b = (b + b.conj().T) / 2
                na, nb = np.linalg.norm(a, 2), np.linalg.norm(b, 2)
                cores[i] = (0.4 * a / max(na, 1e-12)).reshape(1, dims[i], dims[i], 1)
                cores[i + 1] = (b / max(nb, 1e-12)).reshape(1, dims[i + 1], dims[i + 1], 1)
                total = total + tt.TT(cores)
            return total, 'local+coupling'
        return total, 'local_sum'


EPS = 2.220446049250313e-16
# "up to rounding" for the exactness clauses: the relative forward error of a backward-stable dense solve is a small multiple of
# eps * cond(A); the unchanged library stays below 100 eps cond on every problem class driven here (histogram
# sle_accuracy_in_eps_cond:* in the evidence, thorough tier: 46000 cases), the bound used is 300 eps cond
FWD_K = float(__import__('os').environ.get('VERIF_C07_FWD_K', '300'))


def _decade(ctx, clause, value, cond):
    """histogram (evidence, and the calibration of the exactness tolerances): achieved accuracy in units of eps * cond(A)"""
    r = value / max(EPS * cond, 1e-300)
    ctx.events['sle_accuracy_in_eps_cond:%s:1e%+d' % (clause, int(np.floor(np.log10(max(r, 1e-3)))))] += 1


def problem(rng, mals=False):
    d = int(rng.integers(2 if mals else 1, 5))
    dims = gen.rand_dims(rng, d, 3, p_one=0.15)
    while int(np.prod(dims)) > 81:
        dims[int(rng.integers(0, d))] = 2
    cplx = bool(rng.integers(0, 2))
    A, kind = hpd_operator(rng, dims, cplx)
    with probe.oracle():
        b = gen.rand_tt(rng, dims, [1] * d, gen.rand_ranks(rng, d, 3), cplx and rng.random() < 0.8)
        if rng.random() < (0.3 if d > 1 else 0.6):  # operator (and right-hand side) cores in other memory layouts: Fortran order (what LAPACK / SciPy
            A = gen.relayout_tt(rng, A)  # hand back and what lets LAPACK work in place), strided and offset views
            if rng.random() < 0.5:
                b = gen.relayout_tt(rng, b)
            kind += '/relayout'
    return A, b, dims, cplx, kind


def guess(rng, dims, cplx, kind):
    d = len(dims)
    mr = gen.max_ranks(dims, [1] * d)
    if kind == 'rank1':
        r = [1] * (d + 1)
    elif kind == 'maximal':
        r = mr
    else:
        r = gen.feasible_ranks(dims, [1] * d, [1] + [int(rng.integers(1, 4)) for _ in range(d - 1)] + [1])
    with probe.oracle():
        return gen.rand_tt(rng, dims, [1] * d, r, cplx)


LAST_FORWARD = [None, 1.0]  # relative forward error (2-norm) of the last aerr() call


def aerr(A, b, x):
    with probe.oracle():
        Am = mat(dense(A))
        xs = np.linalg.solve(Am, mat(dense(b)).reshape(-1))
        e = mat(dense(x)).reshape(-1) - xs
        LAST_FORWARD[0] = float(np.linalg.norm(e) / max(np.linalg.norm(xs), 1e-300))
        # cancellation inside the trains (a local-sum operator whose terms nearly cancel, a right-hand side given as a sum): rounding is
        # relative to the size of the cores, not of the represented tensor
        LAST_FORWARD[1] = max(1.0, core_scale(A.cores) / max(float(np.linalg.norm(Am)), 1e-300)) * max(1.0, core_scale(b.cores) / max(float(np.linalg.norm(mat(dense(b)))), 1e-300))
        return float(np.sqrt(max(np.real(np.vdot(e, Am @ e)), 0))), float(np.sqrt(max(np.real(np.vdot(xs, Am @ xs)), 0))), float(np.linalg.cond(Am))


def w_solve(ctx, rng, idx):
    use_mals = bool(idx % 2)
    A, b, dims, cplx, okind = problem(rng, mals=use_mals)
    gk = ['rank1', 'intermediate', 'maximal'][int(rng.integers(0, 3))]
    g = guess(rng, dims, cplx, gk)
    if use_mals and rng.random() < 0.25:
        # right-hand side of a solution with a graded spectrum (dominant part + correction of relative size 1e-6.5..1e-3.5)
        with probe.oracle():
            x1, x2 = guess(rng, dims, cplx, 'intermediate'), guess(rng, dims, cplx, 'intermediate')
            eps = float(10 ** rng.uniform(-6.5, -3.5)) * float(x1.norm()) / max(float(x2.norm()), 1e-300)
            bb = A @ (x1 + eps * x2)
            if isinstance(bb, tt.TT):
                b = bb
                okind += '/graded_solution'
    if gk != 'maximal' and rng.random() < 0.12 and isinstance(b, tt.TT) and list(b.ranks) == gen.feasible_ranks(dims, [1] * len(dims), list(b.ranks)) and \
            bool(np.iscomplexobj(b.cores[0])) == bool(cplx):
        # the right-hand side itself serves as initial guess - ONE object in two argument positions (a common way to start: x0 = b)
        g = b
        gk = 'is_the_right_hand_side'
    solver = ['solve', 'lu'][int(rng.integers(0, 2))]
    name = 'mals' if use_mals else 'als'
    fn = sle.mals if use_mals else sle.als
    kw = {'solver': solver}
    if use_mals:
        kw['threshold'] = [0, 1e-12][int(rng.integers(0, 2))]
        if rng.random() < 0.4:  # "no rank bound" said explicitly, in one of the ways to write infinity
            import math
            kw['max_rank'] = [np.inf, float('inf'), math.inf, np.float64('inf')][int(rng.integers(0, 4))]
    ctx.describe({'op': 'sle.' + name, 'dims': dims, 'operator': okind, 'complex': cplx, 'guess': gk, 'guess_ranks': g.ranks, 'solver': solver, 'kw': {k: v for k, v in kw.items()}})
    tags = [name, 'solver=' + solver] + (['complex'] if cplx else [])
    errs = []
    for rep in (1, 2, 3):
        ok, x = call('sle.' + name, fn, A, g, b, prop=P, tags=tags, refusals=(np.linalg.LinAlgError,), repeats=rep, **kw)
        if not ok:
            ctx.skip('sle_singular_micro_system')
            return
        errs.append(aerr(A, b, x))
        if len(errs) == 1:
            fwd0, amp0 = LAST_FORWARD[0], LAST_FORWARD[1]
    e0 = aerr(A, b, g)
    nx, cA = errs[0][1], errs[0][2]
    slack = 1e-8 * nx * np.sqrt(cA)
    ctx.check('sle.' + name, 'more_sweeps_not_worse', errs[1][0] <= errs[0][0] * (1 + 1e-6) + slack and errs[2][0] <= errs[1][0] * (1 + 1e-6) + slack, tags,
              {'errors_by_repeats': [e0[0]] + [e[0] for e in errs], 'dims': dims, 'guess_ranks': g.ranks}, prop=P)
    if gk == 'maximal':
        _decade(ctx, 'exact_after_one_sweep', errs[0][0] / max(nx, 1e-300), cA)
        _decade(ctx, 'exact_after_one_sweep_forward', fwd0 / amp0, cA)
        ctx.check('sle.' + name, 'maximal_rank_guess_exact_after_one_sweep', fwd0 <= (FWD_K * EPS * amp0 + 1e3 * (kw.get('threshold', 1e-12) if use_mals else 0.0)) * cA, tags + ['forward_error'],
                  {'relative_forward_error': fwd0, 'cond': cA, 'in_units_of_eps_cond': fwd0 / (EPS * cA), 'dims': dims, 'guess_ranks': g.ranks}, prop=P)
        ctx.check('sle.' + name, 'maximal_rank_guess_exact_after_one_sweep', errs[0][0] <= 1e-7 * nx * np.sqrt(cA) + 1e-300, tags,
                  {'err': errs[0][0], 'norm': nx, 'cond': cA, 'dims': dims, 'guess_ranks': g.ranks}, prop=P)
    # the same operator / guess objects with another right-hand side, and with the right-hand side changed in place by its owner
    if rng.random() < 0.5:
        with probe.oracle():
            b2 = gen.rand_tt(rng, dims, [1] * len(dims), gen.rand_ranks(rng, len(dims), 3), cplx and rng.random() < 0.8)
        for which in (0, 1):
            if which == 1:
                with probe.oracle():
                    b2.cores[-1] = b2.cores[-1] * float(rng.uniform(1.5, 3.0))
            ok, x2 = call('sle.' + name, fn, A, g, b2, prop=P, tags=tags + ['second_call'], refusals=(np.linalg.LinAlgError,), repeats=1, **kw)
            if ok and gk == 'maximal':
                e2 = aerr(A, b2, x2)
                _decade(ctx, 'exact_after_one_sweep', e2[0] / max(e2[1], 1e-300), e2[2])
                _decade(ctx, 'exact_after_one_sweep_forward', LAST_FORWARD[0] / LAST_FORWARD[1], e2[2])
                ctx.check('sle.' + name, 'maximal_rank_guess_exact_after_one_sweep', LAST_FORWARD[0] <= (FWD_K * EPS * LAST_FORWARD[1] + 1e3 * (kw.get('threshold', 1e-12) if use_mals else 0.0)) * e2[2], tags + ['second_call', 'forward_error'],
                          {'relative_forward_error': LAST_FORWARD[0], 'cond': e2[2], 'dims': dims, 'guess_ranks': g.ranks}, prop=P)
                ctx.check('sle.' + name, 'maximal_rank_guess_exact_after_one_sweep', e2[0] <= 1e-7 * e2[1] * np.sqrt(e2[2]) + 1e-300, tags + ['second_call'],
                          {'err': e2[0], 'norm': e2[1], 'cond': e2[2], 'dims': dims, 'guess_ranks': g.ranks}, prop=P)
    # rank-capped MALS
    if use_mals:
        # every combination of the cap with the other truncation setting (threshold 0 switches the relative cut off entirely,
        # the cap must still apply), from every kind of guess and for more than one sweep
        for thr in (0, 1e-12, None):
            mr = gen.as_int(rng, int(rng.integers(1, 4)))  # (also NumPy integer scalar types: the cap is a number, whatever its type)
            kw2 = {'solver': solver, 'max_rank': mr, 'repeats': gen.as_int(rng, int(rng.integers(1, 3)), p=0.15)}
            if thr is not None:
                kw2['threshold'] = thr
            call('sle.mals', sle.mals, A, g, b, prop=P, tags=tags + ['capped', 'threshold=%s' % thr], refusals=(np.linalg.LinAlgError,), **kw2)
    if idx < 4:
        ctx.sample({'workload': 'solve', 'solver': name + '/' + solver, 'dims': dims, 'operator': okind, 'complex': cplx, 'guess_ranks': g.ranks,
                    'A_norm_error_guess_r1_r2_r3': [e0[0]] + [e[0] for e in errs]})


def w_fixed_point(ctx, rng, idx):
    """b := A x* with x* of low TT rank; x* as the guess must come back"""
    use_mals = bool(idx % 2)
    A, _, dims, cplx, okind = problem(rng, mals=use_mals)
    d = len(dims)
    xs = guess(rng, dims, cplx, ['rank1', 'intermediate'][int(rng.integers(0, 2))])
    graded = use_mals and rng.random() < 0.4
    if graded:
        # a dominant low-rank part plus a correction of relative size 1e-6.5..1e-3.5: singular values far above the truncation
        # threshold (1e-12 by default) but far below the leading ones - a correct solver keeps them
        with probe.oracle():
            corr = guess(rng, dims, cplx, 'intermediate')
            eps = float(10 ** rng.uniform(-6.5, -3.5)) * float(xs.norm()) / max(float(corr.norm()), 1e-300)
            xs = xs + eps * corr
            full = xs.full()
            xs = tt.TT(full, threshold=1e-13) if np.any(full) else xs  # (ranks of a sum exceed the maximal ones: admissible guesses have minimal ranks)
    with probe.oracle():
        b = A @ xs
        if not isinstance(b, tt.TT):  # all modes of size 1
            return
    solver = ['solve', 'lu'][int(rng.integers(0, 2))]
    name = 'mals' if use_mals else 'als'
    fn = sle.mals if use_mals else sle.als
    ctx.describe({'op': 'fixed point sle.' + name, 'dims': dims, 'operator': okind, 'complex': cplx, 'ranks': xs.ranks, 'solver': solver})
    tags = [name, 'solver=' + solver] + (['complex'] if cplx else []) + (['graded_solution'] if graded else [])
    ok, x = call('sle.' + name, fn, A, xs, b, prop=P, tags=tags, refusals=(np.linalg.LinAlgError,), repeats=int(rng.integers(1, 3)), solver=solver)
    if not ok:
        ctx.skip('sle_singular_micro_system')
        return
    with probe.oracle():
        a, c = mat(dense(x)).reshape(-1), mat(dense(xs)).reshape(-1)
        cA = float(np.linalg.cond(mat(dense(A))))
        rel = float(np.linalg.norm(a - c) / max(np.linalg.norm(c), 1e-300))
        amp = max(1.0, core_scale(A.cores) / max(float(np.linalg.norm(mat(dense(A)))), 1e-300)) * max(1.0, core_scale(b.cores) / max(float(np.linalg.norm(mat(dense(b)))), 1e-300))
    _decade(ctx, 'fixed_point', rel / amp, cA)
    ctx.check('sle.' + name, 'exact_solution_is_fixed_point', rel <= (FWD_K * EPS * amp + (1e-9 if use_mals else 0.0)) * cA, tags, {'rel_change': rel, 'cond': cA, 'dims': dims, 'ranks': xs.ranks}, prop=P)


def w_structured(ctx, rng, idx):
    """exactly representable problems: (scaled) identity and separable diagonal operators with power-of-two entries, right-hand sides
    made of unit vectors (single unit vector, Bell / GHZ sums, all ones): the solution's singular values across a bond are exactly
    equal or exactly zero - ties at every rank cut"""
    d = int(rng.integers(2, 4))
    n = int(rng.integers(2, 5))
    dims = [n] * d
    with probe.oracle():
        k = int(rng.integers(0, 4))
        if k == 3:
            # a Kronecker product of positive-definite factors (all TT ranks 1, not diagonal), unequal mode sizes allowed
            dims = [int(rng.integers(2, 5)) for _ in range(d)]
            n = max(dims)
            fs = []
            for m in dims:
                h = rng.standard_normal((m, m))
                fs.append((h @ h.T + np.eye(m)).reshape(1, m, m, 1))
            A = tt.TT(fs)
            okind = 'kronecker_of_positive_definite_factors'
        elif k == 0:
            A = float(2.0 ** int(rng.integers(-2, 3))) * tt.eye(dims)
            okind = 'scaled_identity'
        else:
            A = tt.TT([np.diag(2.0 ** rng.integers(-2, 3, size=n).astype(float)).reshape(1, n, n, 1) for _ in range(d)])
            okind = 'separable_power_of_two_diagonal'
            if k == 2:
                A = A + tt.eye(dims)
                okind += '+identity'
        u = int(rng.integers(0, 3))
        if u == 0:
            b = tt.unit(dims, [int(rng.integers(0, m_)) for m_ in dims])
            bkind = 'unit_vector'
        elif u == 1:
            m = int(rng.integers(2, min(dims) + 1))
            b = None
            for i in rng.permutation(min(dims))[:m]:
                t = tt.unit(dims, [int(i)] * d)
                b = t if b is None else b + t
            bkind = 'ghz_%d' % m
        else:
            b = tt.ones(dims, [1] * d)
            bkind = 'all_ones'
        g = tt.ones(dims, [1] * d) if rng.random() < 0.5 else guess(rng, dims, False, ['rank1', 'intermediate', 'maximal'][int(rng.integers(0, 3))])
    solver = ['solve', 'lu'][int(rng.integers(0, 2))]
    ctx.describe({'op': 'sle.als/mals on exactly representable problems', 'dims': dims, 'operator': okind, 'rhs': bkind, 'guess_ranks': g.ranks, 'solver': solver})
    tags = ['structured', 'solver=' + solver]
    call('sle.als', sle.als, A, g, b, prop=P, tags=['als'] + tags, refusals=(np.linalg.LinAlgError,), repeats=int(rng.integers(1, 3)), solver=solver)
    # a guess of maximal ranks: one sweep gives the exact solution, also for sparse right-hand sides and rank-1 operators
    gm = guess(rng, dims, False, 'maximal')
    if rng.random() < 0.6:
        # ... with sparse cores (selection matrices: maximal ranks, but every core touches only a few coordinates - frames that are
        # orthogonal to parts of a sparse right-hand side)
        with probe.oracle():
            rk = gen.max_ranks(dims, [1] * d)
            cs = []
            for i in range(d):
                for _ in range(50):  # sparse integer cores whose left and right unfoldings both have full rank (admissible frames)
                    M = rng.choice([0.0, 0.0, 1.0, -1.0, 2.0], size=(rk[i], dims[i], 1, rk[i + 1]))
                    if np.linalg.matrix_rank(M.reshape(rk[i] * dims[i], rk[i + 1])) == rk[i + 1] and np.linalg.matrix_rank(M.reshape(rk[i], dims[i] * rk[i + 1])) == rk[i]:
                        break
                else:
                    M = rng.standard_normal((rk[i], dims[i], 1, rk[i + 1]))
                cs.append(M)
            gm = tt.TT(cs)
    for name, fn, kwx in (('als', sle.als, {}), ('mals', sle.mals, {'threshold': 0})):
        ok, xx = call('sle.' + name, fn, A, gm, b, prop=P, tags=[name] + tags, refusals=(np.linalg.LinAlgError,), repeats=1, solver=solver, **kwx)
        if ok:
            e = aerr(A, b, xx)
            ctx.check('sle.' + name, 'maximal_rank_guess_exact_after_one_sweep', e[0] <= 1e-7 * e[1] * np.sqrt(e[2]) + 1e-300, [name] + tags,
                      {'err': e[0], 'norm': e[1], 'cond': e[2], 'dims': dims, 'operator': okind, 'rhs': bkind}, prop=P)
    for thr in (0, 1e-12, None):
        kw = {'solver': solver, 'repeats': int(rng.integers(1, 3))}
        if thr is not None:
            kw['threshold'] = thr
        call('sle.mals', sle.mals, A, g, b, prop=P, tags=['mals'] + tags, refusals=(np.linalg.LinAlgError,), **kw)
        kw['max_rank'] = int(rng.integers(1, max(dims) + 1))
        call('sle.mals', sle.mals, A, g, b, prop=P, tags=['mals', 'capped', 'threshold=%s' % thr] + tags, refusals=(np.linalg.LinAlgError,), **kw)


WORKLOADS = [
    Workload('structured', w_structured, 60, 1500),
    Workload('solve', w_solve, 240, 6000),
    Workload('fixed_point', w_fixed_point, 160, 4000),
]
REQUIRED = ['C07|sle.__construct_micro_matrix_als:equals_projected_operator', 'C07|sle.__construct_micro_matrix_mals:equals_projected_operator',
            'C07|sle.__construct_micro_rhs_als:equals_projected_rhs', 'C07|sle.__construct_micro_rhs_mals:equals_projected_rhs',
            'C07|sle.__construct_micro_matrix_als:hermitian_for_hermitian_operator',
            'C07|sle.als:error_not_larger_than_guess', 'C07|sle.mals:error_not_larger_than_guess', 'C07|sle.als:micro_energies_non_increasing',
            'C07|sle.mals:micro_energies_non_increasing', 'C07|sle.als:sweep_order', 'C07|sle.mals:sweep_order', 'C07|sle.als:more_sweeps_not_worse',
            'C07|sle.mals:more_sweeps_not_worse', 'C07|sle.als:maximal_rank_guess_exact_after_one_sweep', 'C07|sle.als:exact_solution_is_fixed_point',
            'C07|sle.mals:exact_solution_is_fixed_point', 'C07|sle.als:ranks_not_raised', 'C07|sle.mals:max_rank_respected', 'C07|sle.als:result_dims',
            'C06|sle.als:argument_unchanged', 'C06|sle.mals:argument_unchanged']
