"""C14 - basis functions: derivatives are the derivatives of the function.  Deciding monitors: icontract postconditions
on the real partial/partial2/gradient/hessian/__call__ methods of every family (vt.monitors_basis)."""
import copy

import numpy as np

from .. import gen, monitors_basis
from ..drive import call
from ..shard import Workload
from ._common import arm_light

P = 'C14'
tr = None
FAMILIES = ['ConstantFunction', 'Identity', 'Monomial', 'Legendre', 'Sin', 'Cos', 'GaussFunction', 'PeriodicGaussFunction', 'Bspline']


def setup(ctx):
    global tr
    arm_light(ctx)
    tr = monitors_basis.install()


def make(rng, fam, index, dim, neutral=False):
    f, dom = make_(rng, fam, index, dim, neutral)
    if not neutral and rng.random() < 0.15:
        # the parameters are public attributes: a caller may re-tune a function object after constructing it (rescale the basis to the
        # data range, raise a degree); evaluation and derivatives must keep describing one and the same function
        if fam == 'Legendre':
            if rng.random() < 0.5:
                f.domain = fl(rng, rng.uniform(0.3, 4.0))
                dom = (-float(f.domain), float(f.domain))
            else:
                f.degree = it(rng, rng.integers(0, 7))
        elif fam == 'Monomial':
            if rng.random() < 0.5:
                f.exponent = it(rng, rng.integers(0, 6))
            else:
                f.prefactor = fl(rng, rng.uniform(-3, 3))
        elif fam in ('Sin', 'Cos'):
            f.alpha = fl(rng, rng.uniform(-4, 4))
        elif fam in ('GaussFunction', 'PeriodicGaussFunction'):
            if rng.random() < 0.5:
                f.mean = fl(rng, rng.uniform(-2, 2))
            else:
                f.variance = fl(rng, rng.uniform(0.1, 3.0))
    return f, dom


def fl(rng, v):
    """a real parameter as the caller may hold it: Python float or a NumPy scalar (scales / domains computed from data)"""
    return gen.as_float(rng, v, p=0.3, allow32=False)


def it(rng, v):
    """an integer parameter (degree, exponent, coordinate index, dimension) as Python int or signed NumPy integer"""
    return [int, int, int, np.int64, np.int32][int(rng.integers(0, 5))](v)


def make_(rng, fam, index, dim, neutral=False):
    d = None if rng.random() < 0.3 else it(rng, dim)
    index = it(rng, index)
    if fam == 'ConstantFunction':
        return tr.ConstantFunction(index, d), (-2, 2)
    if fam == 'Identity':
        return tr.Identity(index, d), (-2, 2)
    if fam == 'Monomial':
        return tr.Monomial(index, it(rng, rng.integers(0, 6)), dimension=d) if neutral else tr.Monomial(index, it(rng, rng.integers(0, 6)), fl(rng, rng.uniform(-3, 3)), d), (-2, 2)
    if fam == 'Legendre':
        dom = 1.0 if neutral else fl(rng, rng.uniform(0.3, 4.0))
        return tr.Legendre(index, it(rng, rng.integers(0, 7)), dom, d), (-float(dom), float(dom))
    if fam == 'Sin':
        return tr.Sin(index, 1.0 if neutral else fl(rng, rng.uniform(-4, 4)), d), (-3, 3)
    if fam == 'Cos':
        return tr.Cos(index, 1.0 if neutral else fl(rng, rng.uniform(-4, 4)), d), (-3, 3)
    if fam == 'GaussFunction':
        return tr.GaussFunction(index, 0.0 if neutral else fl(rng, rng.uniform(-2, 2)), 1.0 if neutral else fl(rng, rng.uniform(0.1, 3.0)), d), (-3, 3)
    if fam == 'PeriodicGaussFunction':
        return tr.PeriodicGaussFunction(index, 0.0 if neutral else fl(rng, rng.uniform(-2, 2)), 1.0 if neutral else fl(rng, rng.uniform(0.1, 3.0)), d), (-4, 4)
    if fam == 'Bspline':
        nk = int(rng.integers(2, 6))
        knots = np.sort(rng.uniform(-2, 2, size=nk + 1))
        knots = knots + np.arange(nk + 1) * 0.05
        deg = it(rng, rng.integers(2, 5))
        coeff = rng.standard_normal(nk + deg)
        return tr.Bspline(index, knots, deg, coeff, d), (knots[0] + 0.02, knots[-1] - 0.02)
    raise ValueError(fam)


def w_family(ctx, rng, idx):
    fam = FAMILIES[idx % len(FAMILIES)]
    dim = int(rng.integers(1, 4))
    index = int(rng.integers(0, dim))
    f, (lo, hi) = make(rng, fam, index, dim, neutral=(idx % 5 == 0))
    f0 = copy.deepcopy(f)  # pristine (never called) copy
    ctx.describe({'family': fam, 'dimension': dim, 'index': index, 'params': monitors_basis._params(f)})
    refus = (NotImplementedError,)
    for _ in range(4):
        t = rng.uniform(-2, 2, size=dim)
        t[index] = rng.uniform(lo, hi)
        if fam == 'Bspline':  # stay away from knots, where the spline is only C^(degree-1)
            while np.min(np.abs(np.asarray(f.knots) - t[index])) < 2e-3:
                t[index] = rng.uniform(lo, hi)
        if fam != 'Bspline' and rng.random() < 0.15:
            # integer-typed points (grid data): the derivative at such a point is still a real number
            t = rng.integers(-2, 3, size=dim)
            if lo > -2 or hi < 2:
                t[index] = int(np.clip(t[index], np.ceil(lo), np.floor(hi)))
        t0 = t.copy()
        # the operations in random order (the very first call on a freshly built object may be any of them: objects built
        # without `dimension` learn it lazily from their first argument)
        ops = [('__call__', None, None)] + [('partial', k, None) for k in range(dim)] + [('partial2', k, k2) for k in range(dim) for k2 in range(dim)] + \
              [('gradient', None, None), ('hessian', None, None)]
        for j in rng.permutation(len(ops)):
            op, k, k2 = ops[int(j)]
            if op == '__call__':
                call('transform.%s.__call__' % fam, f, t, prop=P)
            elif op == 'partial':
                call('transform.%s.partial' % fam, f.partial, t, k, prop=P, refusals=refus)
            elif op == 'partial2':
                call('transform.%s.partial2' % fam, f.partial2, t, k, k2, prop=P, refusals=refus)
            elif op == 'gradient':
                ok_, r_ = call('transform.%s.gradient' % fam, f.gradient, t, prop=P, refusals=refus)
                if ok_ and isinstance(r_, np.ndarray) and r_.flags.writeable and rng.random() < 0.5:
                    # the caller accumulates into what it was handed (g = f.gradient(x); g *= c; g += ...): its own array - the same object is
                    # asked again right away and at the next point
                    monitors_basis.forget(r_)
                    r_ *= 3.0
                    r_ += 1.0
                    call('transform.%s.gradient' % fam, f.gradient, t, prop=P, refusals=refus, tags=['after_caller_edited_earlier_result'])
            else:
                ok_, r_ = call('transform.%s.hessian' % fam, f.hessian, t, prop=P, refusals=refus)
                if ok_ and isinstance(r_, np.ndarray) and r_.flags.writeable and rng.random() < 0.5:
                    monitors_basis.forget(r_)
                    r_ -= 2.0
                    call('transform.%s.hessian' % fam, f.hessian, t, prop=P, refusals=refus, tags=['after_caller_edited_earlier_result'])
        ctx.check('transform.%s' % fam, 'evaluation_point_unchanged', np.array_equal(t, t0), ['family=' + fam], {'before': t0, 'after': t}, prop=P)
        if rng.random() < 0.5:  # a fresh object with the same parameters for the next point
            f = copy.deepcopy(f0)
    # array of points
    m = int(rng.integers(1, 6))
    T = rng.uniform(-2, 2, size=(dim, m))
    T[index] = rng.uniform(lo, hi, size=m)
    call('transform.%s.__call__' % fam, f, T, prop=P)
    call('transform.%s.partial' % fam, f.partial, T, index, prop=P, refusals=refus)
    # the same preallocated batch buffer filled with the next batch of points (and a second view of that memory): results must
    # follow the current contents of the array, not its identity
    for _ in range(2):
        monitors_basis.RETAINED.clear()  # (results that are views of the caller's buffer - Identity returns t[index] - change with it: not the library's doing)
        T[...] = rng.uniform(-2, 2, size=(dim, m))
        T[index] = rng.uniform(lo, hi, size=m)
        view = T[:, :] if rng.random() < 0.5 else T
        call('transform.%s.__call__' % fam, f, view, prop=P, tags=['buffer_reused'])
        call('transform.%s.partial' % fam, f.partial, view, index, prop=P, refusals=refus, tags=['buffer_reused'])
    if idx < 9:
        ctx.sample({'workload': 'family', 'family': fam, 'dimension': dim, 'index': index, 'params': monitors_basis._params(f)})


WORKLOADS = [Workload('family', w_family, 450, 9000)]
REQUIRED = ['C14|transform.%s.partial:equals_derivative_of_call' % f for f in FAMILIES] + \
           ['C14|transform.%s.partial2:equals_derivative_of_partial' % f for f in FAMILIES if f not in ('PeriodicGaussFunction', 'Bspline')] + \
           ['C14|transform.%s.gradient:equals_gradient_of_call' % f for f in FAMILIES] + \
           ['C14|transform.%s.hessian:equals_hessian_of_call' % f for f in FAMILIES if f not in ('PeriodicGaussFunction', 'Bspline')] + \
           ['C14|transform.%s.__call__:array_evaluation_equals_pointwise' % f for f in FAMILIES]
