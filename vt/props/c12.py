"""C12 - Markov operators built from reactions or transitions equal their definition.  Deciding monitors: Slim / Ulam
contracts (vt.monitors_markov) against a state-enumeration generator and a direct transition histogram."""
import numpy as np

from .. import gen, monitors_markov
from ..drive import call
from ..shard import Workload
from ._common import arm_light

P = 'C12'
slim = None
ulam = None


def setup(ctx):
    global slim, ulam
    arm_light(ctx)
    slim, ulam = monitors_markov.install()


def rand_single(rng, m, kmax=3):
    out = []
    if m < 2:
        return out
    for _ in range(int(rng.integers(0, kmax + 1))):
        r = int(rng.integers(0, m))
        p = int(rng.integers(0, m - 1))
        p = p if p < r else p + 1
        out.append([r, p, float(rng.uniform(0.1, 3.0)) if rng.random() < 0.7 else float(10 ** rng.uniform(-4, 3))])
    if out and rng.random() < 0.08:
        # a null reaction (product = reactant: catalysed exchange that leaves the state unchanged) with a rate many orders of magnitude
        # above the others: it contributes exactly nothing to the generator
        out.append([out[0][0], out[0][0], float(10 ** rng.uniform(6, 12))])
    return out


def rand_two(rng, m1, m2, kmax=3):
    out = []
    for _ in range(int(rng.integers(0, kmax + 1))):
        r1, r2 = int(rng.integers(0, m1)), int(rng.integers(0, m2))
        p1, p2 = int(rng.integers(0, m1)), int(rng.integers(0, m2))
        if (p1, p2) == (r1, r2):
            if m1 > 1:
                p1 = (r1 + 1) % m1
            elif m2 > 1:
                p2 = (r2 + 1) % m2
            else:
                continue
        out.append([r1, p1, r2, p2, float(rng.uniform(0.1, 3.0)) if rng.random() < 0.7 else float(10 ** rng.uniform(-4, 3))])
    if out and rng.random() < 0.08:  # a null two-cell reaction with a huge rate (see rand_single)
        out.append([out[0][0], out[0][0], out[0][2], out[0][2], float(10 ** rng.uniform(6, 12))])
    return out


def rate_units(rng, single, two):
    """the same reaction network with its rates in other units (rates per time unit of 1e-16..1e-8, or 1e6..1e12), or with one slow
    bond / cell (all rates on the last bond - the ring-closing one in cyclic chains - or on one cell smaller by that factor): any
    positive rate is admissible, and the generator is linear in the rates"""
    u = rng.random()
    if u >= 0.2:
        return single, two
    sc = float(10 ** rng.uniform(-16, -8)) if rng.random() < 0.75 else float(10 ** rng.uniform(6, 12))
    if rng.random() < 0.25:  # the extremes of the double range (squares of such rates underflow / overflow)
        sc = float(10 ** rng.uniform(-200, -155)) if rng.random() < 0.6 else float(10 ** rng.uniform(152, 200))
    if u < 0.12:
        return [[[r[0], r[1], r[2] * sc] for r in cell] for cell in single], [[[r[0], r[1], r[2], r[3], r[4] * sc] for r in bond] for bond in two]
    two = [list(b) for b in two]
    j = len(two) - 1 if rng.random() < 0.6 else int(rng.integers(0, len(two)))
    two[j] = [[r[0], r[1], r[2], r[3], r[4] * sc] for r in two[j]]
    return single, two


def w_slim(ctx, rng, idx):
    d = int(rng.integers(2, 7))
    if rng.random() < 0.5:
        ss = [int(rng.integers(1, 4))] * d
    else:
        ss = [int(rng.integers(1, 4)) for _ in range(d)]
    while int(np.prod(ss)) > 256:
        ss[int(np.argmax(ss))] -= 1
    big = rng.random() < 0.12
    if big:  # a few cells with many states (index arithmetic on state numbers beyond the small-integer range)
        d = 2
        ss = [int(rng.integers(10, 16)), int(rng.integers(2, 15))]
        if rng.random() < 0.5:
            ss.reverse()
    cyc = bool(rng.integers(0, 2))
    single = [rand_single(rng, ss[i]) for i in range(d)]
    two = [rand_two(rng, ss[i], ss[i + 1]) for i in range(d - 1)]
    if cyc:
        two.append(rand_two(rng, ss[-1], ss[0]))
    if len(set(ss)) == 1 and rng.random() < 0.6:
        # piecewise homogeneous chains: a homogeneous bulk (the same reaction lists - one list object, or equal copies - on
        # neighbouring cells and bonds) with one or two defect cells / bonds at arbitrary positions, incl. the first and last
        m0 = ss[0]
        s0, t0 = rand_single(rng, m0), rand_two(rng, m0, m0)
        clone = (lambda L: [list(r) for r in L]) if rng.random() < 0.5 else (lambda L: L)
        single = [clone(s0) for _ in range(d)]
        two = [clone(t0) for _ in range(len(two))]
        for _ in range(int(rng.integers(0, 3))):
            u = rng.random()
            if u < 0.35:
                single[int(rng.integers(0, d))] = rand_single(rng, m0)
            elif u < 0.7:
                two[int(rng.integers(0, len(two)))] = rand_two(rng, m0, m0)
            else:
                # a defect that is *nearly* the bulk: the same reactions with rates that differ in the 5th-8th digit (a slowly varying
                # rate field); equal for every tolerance-based comparison, different for the generator
                q = 1.0 + float(10 ** rng.uniform(-7.5, -4)) * (1 if rng.random() < 0.5 else -1)
                if rng.random() < 0.5 and s0:
                    single[int(rng.integers(0, d))] = [[r[0], r[1], r[2] * q] for r in s0]
                elif t0:
                    two[int(rng.integers(0, len(two)))] = [[r[0], r[1], r[2], r[3], r[4] * q] for r in t0]
    thr = [0, 1e-12][int(rng.integers(0, 2))]
    ctx.describe({'op': 'slim_mme', 'state_space': ss, 'cyclic': cyc, 'threshold': thr, 'single': single, 'two': two})
    if rng.random() < 0.25:
        # a reduced model of the same system is built first with a coarse threshold (truncation effective: nothing is asserted on
        # it), then the exact one: what the coarse run leaves behind must not leak into the exact operator
        call('slim.slim_mme', slim.slim_mme, ss, single, two, prop=P, tags=['coarse_threshold_first'], threshold=float(10 ** rng.uniform(-3, -0.5)))
    if big and rng.random() < 0.7:
        # reaction tables with narrow integer state numbers (as read from an int8 / int16 file); reactions touching the top states
        it = [np.int8, np.int16, np.int32][int(rng.integers(0, 3))]
        for i in range(d):
            single[i].append([ss[i] - 1, max(ss[i] - 2, 0), 1.3])
        two[0].append([ss[0] - 1, max(ss[0] - 2, 0), ss[1] - 1, max(ss[1] - 2, 0), 0.7])
        single = [[[it(r[0]), it(r[1]), r[2]] for r in cell] for cell in single]
        two = [[[it(r[0]), it(r[1]), it(r[2]), it(r[3]), r[4]] for r in bond] for bond in two]
    single, two = rate_units(rng, single, two)
    ctx.describe({'op': 'slim_mme', 'state_space': ss, 'cyclic': cyc, 'threshold': thr, 'single': single, 'two': two})
    if rng.random() < 0.2:  # reactions as tuples / with NumPy scalars, the state space as tuple or integer array
        st = [np.int64, np.int64, np.uint8, np.uint16, np.uint64, np.intp][int(rng.integers(0, 6))]  # (state numbers are non-negative: unsigned types are natural for them)
        single = [[tuple(r) if rng.random() < 0.5 else [st(r[0]), st(r[1]), np.float64(r[2])] for r in cell] for cell in single]
        if rng.random() < 0.5:
            two = [[[st(r[0]), st(r[1]), st(r[2]), st(r[3]), r[4]] for r in bond] for bond in two]
        ss = [tuple(ss), np.array(ss), [np.int64(x) for x in ss]][int(rng.integers(0, 3))]
    call('slim.slim_mme', slim.slim_mme, ss, single, two, prop=P, tags=['cyclic' if cyc else 'open'], threshold=thr)
    if rng.random() < 0.3 and isinstance(ss, list):  # the same list objects again: other threshold, and the chain opened / closed by its owner
        call('slim.slim_mme', slim.slim_mme, ss, single, two, prop=P, tags=['cyclic' if cyc else 'open', 'second_call'], threshold=1e-12 if thr == 0 else 0)
        if cyc:
            two.pop()
        else:
            two.append(rand_two(rng, ss[-1], ss[0]))
        call('slim.slim_mme', slim.slim_mme, ss, single, two, prop=P, tags=['open' if cyc else 'cyclic', 'second_call'], threshold=thr)
    if idx < 3:
        ctx.sample({'workload': 'slim', 'state_space': ss, 'cyclic': cyc, 'threshold': thr, 'single_cell_reactions': single, 'two_cell_reactions': two})


def w_slim_hom(ctx, rng, idx):
    d = int(rng.integers(2, 5))
    m = int(rng.integers(1, 4))
    while m ** d > 256:
        d -= 1
    ss = [m] * d
    cyc = bool(rng.integers(0, 2))
    single = rand_single(rng, m)
    two = rand_two(rng, m, m)
    thr = [0, 1e-12][int(rng.integers(0, 2))]
    if rng.random() < 0.15:
        sc = float(10 ** rng.uniform(-16, -8))
        single, two = [[r[0], r[1], r[2] * sc] for r in single], [[r[0], r[1], r[2], r[3], r[4] * sc] for r in two]
    ctx.describe({'op': 'slim_mme_hom', 'state_space': ss, 'cyclic': cyc, 'threshold': thr, 'single': single, 'two': two})
    if rng.random() < 0.25:
        call('slim.slim_mme_hom', slim.slim_mme_hom, ss, single, two, prop=P, tags=['coarse_threshold_first'], cyclic=cyc, threshold=float(10 ** rng.uniform(-3, -0.5)))
    call('slim.slim_mme_hom', slim.slim_mme_hom, ss, single, two, prop=P, tags=['cyclic' if cyc else 'open'], cyclic=cyc, threshold=thr)


def w_ulam(ctx, rng, idx):
    k = 2 + idx % 2
    states = [int(rng.integers(1, 8 if k == 2 else 5)) for _ in range(k)]
    fine = rng.random() < 0.06
    if fine:
        # a fine grid in one direction (256-420 boxes, more than a byte / a 16-bit product of two box numbers can hold)
        states = [1 + int(rng.integers(0, 2)) for _ in range(k)]
        states[int(rng.choice([0, k - 1]))] = int(rng.integers(256, 421))
    n = int(np.prod(states))
    sim = int(rng.integers(1, 6))
    if not fine and idx % 25 == 7:
        # many simulations per box on a small grid, every box fully sampled: tables with a round number of columns (2^15, 2^16, 2^17, 3 * 2^16
        # - what "2048 simulations on 32 boxes" gives), the sizes at which block-wise counting code has its boundaries
        states = [[2, 2], [4, 2], [2, 8], [4, 4], [8, 4], [8, 8]][int(rng.integers(0, 6))] if k == 2 else [[2, 2, 1], [2, 2, 2], [4, 2, 2], [2, 4, 4], [4, 4, 4]][int(rng.integers(0, 5))]
        n = int(np.prod(states))
        total = [2 ** 15, 2 ** 16, 2 ** 16, 2 ** 17, 3 * 2 ** 16][int(rng.integers(0, 5))]
        sim = total // n
        src = np.repeat(np.array(list(np.ndindex(*states)), dtype=int), sim, axis=0)  # (n * sim, k)
        # transitions concentrated on few targets per box (ranks stay small): each box jumps to one of three random boxes
        tg = np.array([[int(rng.integers(0, s_)) for s_ in states] for _ in range(3 * n)], dtype=int).reshape(n, 3, k)
        choice = rng.integers(0, 3, size=src.shape[0])
        dst = tg[np.repeat(np.arange(n), sim), choice]
        tr = np.concatenate([src + 1, dst + 1], axis=1).T
        tr = tr[:, rng.permutation(tr.shape[1])].astype([int, np.uint8, np.int32][int(rng.integers(0, 3))])
        ctx.describe({'op': 'ulam_%dd' % k, 'states': states, 'simulations': sim, 'transitions': int(tr.shape[1]), 'kind': 'round number of table columns'})
        call('ulam.ulam_%dd' % k, ulam.ulam_2d if k == 2 else ulam.ulam_3d, tr, states, sim, prop=P, tags=['round_number_of_columns'])
        return
    cols = []
    boxes = list(np.ndindex(*states))
    if fine:
        # (the operator has one rank per distinct (source, target) pair of a direction: a few dozen sampled boxes - the highest-numbered ones
        # among them - with local moves keep it at tens of megabytes)
        far = rng.random() < 0.5 and max(states) <= 300  # local moves, or jumps to arbitrary boxes from many sources (several hundred distinct pairs)
        pick = sorted(set(int(j) for j in rng.choice(len(boxes), size=min(200, len(boxes) - 2) if far else 30, replace=False)) | {len(boxes) - 1, len(boxes) - 2})
        boxes = [boxes[j] for j in pick]
    for box in boxes:
        u = rng.random()
        cnt = 0 if u < 0.15 else (int(rng.integers(1, sim + 1)) if u < 0.3 else sim)  # unsampled / partly / fully sampled boxes
        for _ in range(cnt):
            dst = [int(rng.integers(0, s)) for s in states] if (not fine or far) else [int(np.clip(b + rng.integers(-2, 3), 0, s - 1)) for b, s in zip(box, states)]
            cols.append([b + 1 for b in box] + [t + 1 for t in dst])
    if not cols:
        cols.append([1] * (2 * k))
    tr = np.array(cols, dtype=int).T
    tr = tr[:, rng.permutation(tr.shape[1])]
    tr = tr.astype([int, np.uint8, np.int32, np.int16, np.uint16][int(rng.integers(0, 5))] if max(states) <= 100 else [int, np.int32, np.int16, np.uint16][int(rng.integers(0, 4))])  # (the shipped tables are uint8)
    ctx.describe({'op': 'ulam_%dd' % k, 'states': states, 'simulations': sim, 'transitions': int(tr.shape[1])})
    fn = ulam.ulam_2d if k == 2 else ulam.ulam_3d
    if rng.random() < 0.3:  # the table in another memory layout; grid sizes as tuple / integer array; NumPy integer simulation count
        tr = gen.relayout_array(rng, tr)
    states_arg = [states, tuple(states), np.array(states), [np.int64(x) for x in states]][int(rng.integers(0, 4))]
    call('ulam.ulam_%dd' % k, fn, tr, states_arg, gen.as_int(rng, sim), prop=P)
    if idx < 2:
        ctx.sample({'workload': 'ulam', 'dim': k, 'states': states, 'simulations': sim, 'transitions': tr.T.tolist()[:12]})


WORKLOADS = [
    Workload('slim', w_slim, 400, 8000),
    Workload('slim_hom', w_slim_hom, 120, 2000),
    Workload('ulam', w_ulam, 200, 4000),
]
REQUIRED = ['C12|slim.slim_mme:equals_master_equation_generator', 'C12|slim.slim_mme:column_sums_vanish', 'C12|slim.slim_mme:off_diagonals_non_negative',
            'C12|slim.slim_mme_hom:equals_master_equation_generator', 'C12|ulam.ulam_2d:entries_are_transition_frequencies', 'C12|ulam.ulam_3d:entries_are_transition_frequencies',
            'C12|ulam.ulam_2d:fully_sampled_columns_sum_to_one', 'C12|ulam.ulam_3d:fully_sampled_columns_sum_to_one']
