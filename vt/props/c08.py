"""C08 - ALS eigen-solver returns consistent Ritz pairs and keeps exact eigenpairs.
Monitors: M6 on evp.__construct_micro_matrices at every micro-step (projected pencil + deflation terms, from the live
iterate), contracts on evp.als / evp.power_method (Rayleigh quotient, unit norm, lambda_max bound), and driver-level
clauses: repeats monotone towards sigma, fixed point on an interacting operator with a rank-1 dominant eigentensor,
maximal-rank guess => exact extremal pair, deflation == explicitly shifted operator, inverse iteration converges."""
import numpy as np
import scipy.linalg as sla

from .. import gen, probe, monitors_sle, monitors_evp
from ..dense import dense, mat
from ..drive import call
from scipy.sparse.linalg import ArpackError, ArpackNoConvergence
from ..shard import Workload
from ._common import arm_light

P = 'C08'
tt = None
evp = None


def setup(ctx):
    global tt, evp
    tt = arm_light(ctx)
    monitors_sle.install()
    evp = monitors_evp.install()


def dims_for(rng, dmin=2, dmax=4, cap=64, mmin=2):
    d = int(rng.integers(dmin, dmax + 1))
    dims = [int(rng.integers(mmin, 4)) if rng.random() > 0.12 else 1 for _ in range(d)]  # modes of size 1 included
    if int(np.prod(dims)) < 2:
        dims[int(rng.integers(0, d))] = 2
    while int(np.prod(dims)) > cap:
        dims[int(np.argmax(dims))] -= 1
    return dims


def herm_matrix(rng, n, cplx):
    a = gen.randn(rng, (n, n), cplx)
    return (a + a.conj().T) / 2


def op_from_matrix(M, dims):
    with probe.oracle():
        return tt.TT(np.ascontiguousarray(M).reshape(list(dims) + list(dims)))


def hermitian_op(rng, dims, cplx):
    """interacting Hermitian TT operator of low rank: sum of Kronecker products of Hermitian factors"""
    with probe.oracle():
        return gen.hermitian_tt(rng, dims, int(rng.integers(1, 4)), cplx)


def vec(t):
    with probe.oracle():
        return mat(dense(t)).reshape(-1)


def w_mixed_pencil(ctx, rng, idx):
    """generalised problems whose two operators have different dtypes (real operator, complex Hermitian right-hand operator and vice
    versa), every micro solver in turn"""
    w_ritz(ctx, rng, idx, mixed=True)


def w_ritz(ctx, rng, idx, mixed=False):
    dims = dims_for(rng, dmin=1)
    d = len(dims)
    cplx = bool(rng.integers(0, 2))
    A = hermitian_op(rng, dims, cplx)
    gevp = mixed or rng.random() < 0.35
    B = None
    if gevp:
        with probe.oracle():
            B = gen.hermitian_tt(rng, dims, 1, (not cplx) if mixed else (cplx if rng.random() < 0.6 else (not cplx)), hpd=True, eps=1.0)  # (dtype of B independent of A's)
    nev = int(rng.integers(1, 4))
    ranks = gen.feasible_ranks(dims, [1] * d, [1] + [int(rng.integers(1, 4)) for _ in range(d - 1)] + [1])
    micro = min(ranks[i] * dims[i] * ranks[i + 1] for i in range(d))
    nev = max(1, min(nev, micro))
    if mixed:
        nev = max(1, min(nev, micro - 2))  # (leaves room for the iterative micro solver whenever the micro problem has 3+ unknowns)
    solver = ['eig', 'eigh', 'eigs'][int(rng.integers(0, 3))]
    if mixed:
        solver = ['eigs', 'eig', 'eigh', 'eigs'][idx % 4]
    with probe.oracle():
        Am = mat(dense(A))
        Bm = mat(dense(B)) if B is not None else None
        w = sla.eigh(Am, Bm, eigvals_only=True)
    sig_kind = int(rng.integers(0, 3))
    sigma = float([w[-1] + 0.3 * (abs(w[-1]) + 1), w[0] - 0.3 * (abs(w[0]) + 1), rng.uniform(w[0], w[-1])][sig_kind])
    if solver == 'eigs':
        if micro < nev + 2 or np.min(np.abs(w - sigma)) < 1e-3 * (abs(w[-1] - w[0]) + 1e-12) or (cplx and False):
            solver = 'eig'
    with probe.oracle():
        g = gen.rand_tt(rng, dims, [1] * d, ranks, cplx if rng.random() < 0.6 else (not cplx))
    kw = dict(number_ev=nev, solver=solver, sigma=sigma, conv_eps=[0.0, 0.0, 1e-10, 1e-3][int(rng.integers(0, 4))])
    if rng.random() < 0.3:
        kw['real'] = False
    if B is not None:
        kw['operator_gevp'] = B
    ctx.describe({'op': 'evp.als', 'dims': dims, 'complex': cplx, 'gevp': gevp, 'nev': nev, 'solver': solver, 'sigma': sigma, 'ranks': ranks})
    tags = ['solver=' + solver] + (['complex'] if cplx else []) + (['gevp'] if gevp else [])
    vals = []
    # ARPACK may legitimately give up (no convergence, singular shifted factorisation); anything else raised on the eigs path is a failure
    refus = (sla.LinAlgError, np.linalg.LinAlgError) if solver != 'eigs' else (sla.LinAlgError, np.linalg.LinAlgError, ArpackError, ArpackNoConvergence, RuntimeError)
    # (a third of the cases follow the run over 12 sweep counts: bookkeeping that looks back over a window of earlier sweeps only
    # shows from the fifth sweep on, and only on non-monotone runs - interior targets, low-rank guesses)
    reps = (1, 2, 3, 4) if (idx % 3 or solver == 'eigs') else tuple(range(1, 13))
    for rep in reps:
        ok, r = call('evp.als', evp.als, A, g, prop=P, tags=tags, refusals=refus, repeats=rep, **kw)
        if not ok:
            ctx.skip('evp_micro_solver_refused')
            return
        vals.append(r[0])
    if solver == 'eigs':
        ctx.checks['C08|evp.als:eigs_micro_solver_completed_and_judged'] += 1
    if nev == 1 and solver != 'eigs':
        dist = [abs(v - sigma) for v in vals]
        nA = float(np.linalg.norm(Am, 2))
        okm = all(dist[k + 1] <= dist[k] + 1e-9 * max(nA, 1.0) for k in range(len(dist) - 1))
        ctx.check('evp.als', 'more_sweeps_not_farther_from_sigma', okm, tags, {'values_by_repeats': vals, 'sigma': sigma, 'dims': dims}, prop=P)
    if idx < 3:
        ctx.sample({'workload': 'ritz', 'dims': dims, 'complex': cplx, 'gevp': gevp, 'number_ev': nev, 'solver': solver, 'sigma': sigma,
                    'guess_ranks': ranks, 'eigenvalues_by_repeats': [np.asarray(v).tolist() for v in vals]})


def w_fixed_point(ctx, rng, idx):
    """A = Q A' Q + lam v v^H, Q = I - v v^H, v a product state, lam > ||A'||: v is the dominant eigentensor (rank 1)
    of an interacting operator.  The solver started at v must return v (up to phase) and lam."""
    dims = dims_for(rng, dmin=2, cap=48)
    d = len(dims)
    cplx = rng.random() < 0.7
    n = int(np.prod(dims))
    rk = [1] * (d + 1) if rng.random() < 0.5 else gen.feasible_ranks(dims, [1] * d, [1] + [2] * (d - 1) + [1])
    with probe.oracle():
        # the solver (like all of the library's own callers) expects a right-orthonormal initial guess
        vt_ = tt.TT(gen.right_orthonormal_cores(gen.rand_cores(rng, dims, [1] * d, rk, cplx)))
        v = mat(dense(vt_)).reshape(-1)
        Ap = herm_matrix(rng, n, cplx)
        Q = np.eye(n) - np.outer(v, v.conj())
        lam = float(np.linalg.norm(Ap, 2) * (1.5 + rng.random()))
        Am = Q @ Ap @ Q + lam * np.outer(v, v.conj())
        Am = (Am + Am.conj().T) / 2
    A = op_from_matrix(Am, dims)
    solver = ['eigh', 'eig'][int(rng.integers(0, 2))]
    sigma = lam * (1 + 0.05 * rng.random())
    rep = int(rng.integers(1, 3))
    ctx.describe({'op': 'evp.als fixed point', 'dims': dims, 'complex': cplx, 'solver': solver, 'lambda': lam, 'repeats': rep, 'ranks': rk})
    tags = ['solver=' + solver] + (['complex'] if cplx else [])
    ok, r = call('evp.als', evp.als, A, vt_, prop=P, tags=tags, number_ev=1, solver=solver, sigma=sigma, repeats=rep, conv_eps=0.0)
    if not ok:
        return
    lam_r, x, _ = r
    xv = vec(x)
    ov = abs(np.vdot(v, xv)) / max(np.linalg.norm(xv), 1e-300)
    ctx.check('evp.als', 'exact_dominant_eigentensor_is_fixed_point', ov >= 1 - 1e-8 and abs(lam_r - lam) <= 1e-8 * lam, tags,
              {'overlap': float(ov), 'eigenvalue': lam_r, 'expected': lam, 'dims': dims, 'solver': solver}, prop=P)
    if idx < 2:
        ctx.sample({'workload': 'fixed_point', 'dims': dims, 'complex': cplx, 'solver': solver, 'lambda': lam, 'overlap': float(ov)})


def w_maximal(ctx, rng, idx, dims=None):
    dims = dims_for(rng, dmin=1, cap=48) if dims is None else dims
    d = len(dims)
    cplx = bool(rng.integers(0, 2))
    if int(np.prod(dims)) > 256:  # (large state spaces: a dense Hermitian matrix with a spectrum on both sides of 0, as TT operator)
        n = int(np.prod(dims))
        M = herm_matrix(rng, n, cplx) / np.sqrt(n) + float(rng.uniform(-1.5, 1.5)) * np.eye(n)
        A = op_from_matrix(M, dims)
    else:
        A = hermitian_op(rng, dims, cplx)
    gevp = rng.random() < 0.3
    B = None
    if gevp:
        with probe.oracle():
            B = gen.hermitian_tt(rng, dims, 1, cplx if rng.random() < 0.6 else (not cplx), hpd=True, eps=1.0)  # (dtype of B independent of A's)
    with probe.oracle():
        Am = mat(dense(A))
        Bm = mat(dense(B)) if B is not None else None
        w, V = sla.eigh(Am, Bm)
        g = gen.rand_tt(rng, dims, [1] * d, gen.max_ranks(dims, [1] * d), cplx if rng.random() < 0.6 else (not cplx))  # (guess dtype independent)
    first = int(rng.integers(0, 3))
    # the same operator / guess objects are solved for two different targets in a row (second call: anything kept from the first shows)
    for which in ([first, (first + 1 + int(rng.integers(0, 2))) % 3] if rng.random() < 0.5 else [first]):
        _maximal_one(ctx, rng, which, A, B, g, Am, Bm, w, V, dims, cplx, gevp, second=(which != first))


def _maximal_one(ctx, rng, which, A, B, g, Am, Bm, w, V, dims, cplx, gevp, second=False):
    if which == 0:
        solver, sigma, target = 'eigh', 1.0, -1
    elif which == 1:
        solver, sigma, target = 'eig', float(w[-1] + 0.2 * (w[-1] - w[0]) + 0.1), -1
    else:
        solver, sigma, target = 'eig', float(w[0] - 0.2 * (w[-1] - w[0]) - 0.1), 0
    kw = dict(number_ev=1, solver=solver, sigma=sigma, repeats=1)
    if B is not None:
        kw['operator_gevp'] = B
    ctx.describe({'op': 'evp.als maximal ranks', 'dims': dims, 'complex': cplx, 'gevp': gevp, 'solver': solver, 'sigma': sigma})
    tags = ['solver=' + solver] + (['complex'] if cplx else []) + (['gevp'] if gevp else []) + (['second_call'] if second else [])
    ok, r = call('evp.als', evp.als, A, g, prop=P, tags=tags, refusals=(sla.LinAlgError, np.linalg.LinAlgError), **kw)
    if not ok:
        ctx.skip('evp_micro_solver_refused')
        return
    lam_r, x, _ = r
    nA = float(np.linalg.norm(Am, 2))
    cB = float(np.linalg.cond(Bm)) if Bm is not None else 1.0
    good = abs(lam_r - w[target]) <= 1e-7 * max(nA, 1.0) * cB
    gap = (w[-1] - w[-2]) if target == -1 else (w[1] - w[0])
    detail = {'eigenvalue': lam_r, 'expected': float(w[target]), 'dims': dims, 'gap': float(gap) if len(w) > 1 else None}
    if len(w) > 1 and gap > 1e-3 * max(nA, 1e-12) and good:
        xv = vec(x)
        ref = V[:, target]
        Bx = (Bm @ xv) if Bm is not None else xv
        ov = abs(np.vdot(ref, Bx)) / np.sqrt(abs(np.vdot(xv, Bx)))  # V is B-orthonormal
        detail['overlap'] = float(ov)
        good = good and ov >= 1 - 1e-6 * cB
    ctx.check('evp.als', 'maximal_rank_guess_gives_exact_extremal_pair', good, tags, detail, prop=P)


def outer_op(p):
    """TT operator p p^H from a TT vector p"""
    cores = []
    for c in p.cores:
        r1, m, _, r2 = c.shape
        k = np.einsum('amb,cnd->acmnbd', c[:, :, 0, :], np.conj(c[:, :, 0, :])).reshape(r1 * r1, m, m, r2 * r2)
        cores.append(k)
    return tt.TT(cores)


def w_deflation(ctx, rng, idx):
    dims = dims_for(rng, dmin=1, cap=36)
    d = len(dims)
    cplx = bool(rng.integers(0, 2))
    A = hermitian_op(rng, dims, cplx)
    nprev = int(rng.integers(1, 4))
    shift = float(rng.uniform(-3, 3))
    with probe.oracle():
        prev = []
        for _ in range(nprev):
            p = gen.rand_tt(rng, dims, [1] * d, gen.feasible_ranks(dims, [1] * d, [1] + [int(rng.integers(1, 4)) for _ in range(d - 1)] + [1]), cplx)
            p = (1.0 / p.norm()) * p
            prev.append(p)
        A2 = A
        for p in prev:
            A2 = A2 + shift * outer_op(p)
        g = gen.rand_tt(rng, dims, [1] * d, gen.feasible_ranks(dims, [1] * d, [1] + [int(rng.integers(1, 4)) for _ in range(d - 1)] + [1]), cplx)
        nA = float(np.linalg.norm(mat(dense(A2)), 2))
    rep = int(rng.integers(1, 3))
    kwg = {}
    if rng.random() < 0.35:  # deflation in a generalised problem: the pencil (A + shift * sum p p^H, B)
        with probe.oracle():
            kwg['operator_gevp'] = gen.hermitian_tt(rng, dims, 1, cplx if rng.random() < 0.6 else (not cplx), hpd=True, eps=1.0)
    ctx.describe({'op': 'evp.als deflation', 'dims': dims, 'complex': cplx, 'nprev': nprev, 'shift': shift, 'repeats': rep, 'ranks': g.ranks, 'gevp': bool(kwg)})
    tags = ['deflation'] + (['complex'] if cplx else []) + (['gevp'] if kwg else [])
    ok1, r1 = call('evp.als', evp.als, A, g, prop=P, tags=tags, refusals=(sla.LinAlgError, np.linalg.LinAlgError), previous=prev, shift=shift, solver='eigh', repeats=rep, conv_eps=0.0, **kwg)
    ok2, r2 = call('evp.als', evp.als, A2, g, prop=P, tags=tags, refusals=(sla.LinAlgError, np.linalg.LinAlgError), solver='eigh', repeats=rep, conv_eps=0.0, **kwg)
    if not (ok1 and ok2):
        ctx.skip('evp_micro_solver_refused')
        return
    x1, x2 = vec(r1[1]), vec(r2[1])
    ov = abs(np.vdot(x1, x2))
    ctx.check('evp.als', 'deflation_equals_shifted_operator', abs(r1[0] - r2[0]) <= 1e-7 * max(nA, 1.0), tags,
              {'with_previous': r1[0], 'shifted_operator': r2[0], 'overlap': float(ov), 'shift': shift, 'dims': dims}, prop=P)


def w_power(ctx, rng, idx):
    dims = dims_for(rng, dmin=1, cap=36)
    d = len(dims)
    cplx = bool(rng.integers(0, 2))
    A = hermitian_op(rng, dims, cplx)
    gevp = rng.random() < 0.35
    B = None
    if gevp:
        with probe.oracle():
            B = gen.hermitian_tt(rng, dims, 1, cplx if rng.random() < 0.6 else (not cplx), hpd=True, eps=1.0)  # (dtype of B independent of A's)
    with probe.oracle():
        Am = mat(dense(A))
        Bm = mat(dense(B)) if B is not None else None
        w, V = sla.eigh(Am, Bm)
        g = gen.rand_tt(rng, dims, [1] * d, gen.max_ranks(dims, [1] * d), cplx if rng.random() < 0.6 else (not cplx))  # (guess dtype independent)
    n = len(w)
    k = int(rng.integers(0, n))
    gaps = []
    if k > 0:
        gaps.append(w[k] - w[k - 1])
    if k < n - 1:
        gaps.append(w[k + 1] - w[k])
    gmin = min(gaps) if gaps else 1.0
    spread = (w[-1] - w[0]) if n > 1 else 1.0
    if gmin < 1e-2 * max(spread, 1e-12):
        ctx.skip('power_method_no_spectral_gap')
        return
    sigma = float(w[k] + 0.04 * gmin * (1 if rng.random() < 0.5 else -1))
    polish = (not gevp) and rng.random() < 0.25
    if polish:
        # the usual way to polish an eigenvector for a KNOWN eigenvalue: the shift is the eigenvalue as computed elsewhere (here: the
        # dense reference), i.e. within a few rounding errors of the true one - the shifted systems are numerically singular and one
        # inverse iteration with a backward-stable solve lands on the eigenvector
        sigma = float(w[k]) + float([0.0, 3e-15, -3e-15, 2e-14][int(rng.integers(0, 4))]) * float(np.linalg.norm(Am, 2))
    ctx.describe({'op': 'evp.power_method', 'dims': dims, 'complex': cplx, 'gevp': gevp, 'sigma': sigma, 'target': float(w[k]), 'shift_is_the_computed_eigenvalue': polish})
    tags = (['complex'] if cplx else []) + (['gevp'] if gevp else []) + (['shift_is_the_computed_eigenvalue'] if polish else [])
    kw = {'operator_gevp': B} if B is not None else {}
    # a few iterations only (far from convergence): the reported value must be the Rayleigh quotient of the returned tensor all the same
    call('evp.power_method', evp.power_method, A, g, prop=P, tags=tags + ['few_iterations'], refusals=(np.linalg.LinAlgError,), repeats=int(rng.integers(1, 4)),
         sigma=float(rng.uniform(w[0], w[-1])) if rng.random() < 0.5 else sigma, **kw)
    ok, r = call('evp.power_method', evp.power_method, A, g, prop=P, tags=tags, refusals=(np.linalg.LinAlgError,), repeats=14, sigma=sigma, **kw)
    if not ok:
        ctx.skip('power_method_singular_shifted_system')
        return
    lam_r, x = r
    nA = float(np.linalg.norm(Am, 2))
    cB = float(np.linalg.cond(Bm)) if Bm is not None else 1.0
    # conditioning of the shifted solves: (A - sigma B) has an eigenvalue 0.04*gmin
    ctx.check('evp.power_method', 'converges_to_eigenvalue_nearest_sigma', abs(lam_r - w[k]) <= 1e-6 * max(nA, 1.0) * cB, tags,
              {'reported': lam_r, 'nearest': float(w[k]), 'sigma': sigma, 'dims': dims, 'gap': float(gmin)}, prop=P)
    if idx < 2:
        ctx.sample({'workload': 'power', 'dims': dims, 'complex': cplx, 'gevp': gevp, 'sigma': sigma, 'nearest_eigenvalue': float(w[k]), 'reported': lam_r})


def w_large_micro(ctx, rng, idx):
    """micro problems with more than 512 unknowns (state spaces of 576-648 states at maximal ranks): the sizes at which an
    implementation might switch from a dense to an iterative micro-solver; the exactness clause applies unchanged"""
    dims = [[24, 24], [9, 8, 9], [18, 32]][idx % 3]
    w_maximal(ctx, rng, idx, dims=dims)


WORKLOADS = [
    Workload('large_micro', w_large_micro, 2, 12),
    Workload('ritz', w_ritz, 160, 4000),
    Workload('mixed_pencil', w_mixed_pencil, 100, 1200),
    Workload('fixed_point', w_fixed_point, 120, 3000),
    Workload('maximal', w_maximal, 120, 3000),
    Workload('deflation', w_deflation, 80, 2000),
    Workload('power', w_power, 80, 2000),
]
REQUIRED = ['C08|evp.als:eigs_micro_solver_completed_and_judged', 'C08|evp.__construct_micro_matrices:equals_projected_operator', 'C08|evp.__construct_micro_matrices:equals_projected_right_operator',
            'C08|evp.__construct_micro_matrices:hermitian_for_hermitian_operator', 'C08|evp.als:eigenvalue_is_rayleigh_quotient', 'C08|evp.als:unit_norm',
            'C08|evp.als:not_above_largest_eigenvalue', 'C08|evp.als:more_sweeps_not_farther_from_sigma', 'C08|evp.als:exact_dominant_eigentensor_is_fixed_point',
            'C08|evp.als:maximal_rank_guess_gives_exact_extremal_pair', 'C08|evp.als:deflation_equals_shifted_operator',
            'C08|evp.power_method:eigenvalue_is_rayleigh_quotient', 'C08|evp.power_method:converges_to_eigenvalue_nearest_sigma',
            'C06|evp.als:argument_unchanged', 'C06|evp.power_method:argument_unchanged']
