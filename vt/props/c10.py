"""C10 - splitting integrators equal the composed local propagators, at the right order.  Deciding monitors: Splitting
contract (one step == dense product of the even/odd-bond exponentials with coefficient tables typed from the
literature; norm conservation for skew-Hermitian generators; unit norm with normalisation) and the driver-level
observed-order clause against expm(T A) x0."""
import numpy as np
import scipy.linalg as sla

from .. import gen, probe, monitors_ode
from ..dense import dense, mat
from ..drive import call
from ..shard import Workload
from ._common import arm_light

P = 'C10'
tt = None
ode = None
SCHEMES = ['lie', 'strang', 'yoshida', 'kahan_li']
ORDER = {'lie': 1, 'strang': 2, 'yoshida': 4, 'kahan_li': 8}
MIN_ORDER = {'lie': 0.5, 'strang': 1.5, 'yoshida': 3.5, 'kahan_li': 5.5}
H_ORDER = {'lie': 0.05, 'strang': 0.1, 'yoshida': 0.25, 'kahan_li': 2.0}


def setup(ctx):
    global tt, ode
    tt = arm_light(ctx)
    ode = monitors_ode.install_splitting()


def components(rng, d, kind):
    """random nearest-neighbour operator components; kind in {general, skew_real, skew_complex}"""
    homogeneous = rng.random() < 0.5
    if homogeneous:
        m = int(rng.integers(1, 4))
        dims = [m] * d
    else:
        dims = [int(rng.integers(1, 4)) for _ in range(d)]
        if rng.random() < 0.3:  # site-dependent LISTS on a chain of equal sites (what the nearly homogeneous / isolated-modification classes below need)
            dims = [int(rng.integers(2, 4))] * d
    while int(np.prod(dims)) > 243:
        dims[int(np.argmax(dims))] -= 1
        homogeneous = homogeneous and len(set(dims)) == 1
    r = int(rng.integers(1, 3)) if kind != 'markov' else 2
    cplx = kind == 'skew_complex' or (kind == 'general' and rng.random() < 0.5)

    def herm(m):
        a = gen.randn(rng, (m, m), cplx)
        return (a + a.conj().T) / 2

    def site(m):
        if kind == 'markov':
            return gen_matrix(m)
        if kind == 'general':
            return gen.randn(rng, (m, m), cplx)
        if kind == 'skew_real':
            a = rng.standard_normal((m, m))
            return a - a.T
        return -1j * herm(m)

    def gen_matrix(m):
        q = rng.random((m, m)) * (rng.random((m, m)) < 0.7)
        np.fill_diagonal(q, 0.0)
        return q - np.diag(q.sum(axis=0))

    def pair(m1, m2):
        if kind == 'markov':
            # one two-site reaction (r1 -> p1, r2 -> p2) with rate c:  c (E_{p1 r1} (x) E_{p2 r2} - E_{r1 r1} (x) E_{r2 r2}): a Markov
            # generator on the pair of sites (columns sum to 0, off-diagonals >= 0), interaction rank 2
            r1, r2, p1, p2 = int(rng.integers(0, m1)), int(rng.integers(0, m2)), int(rng.integers(0, m1)), int(rng.integers(0, m2))
            c = float(rng.uniform(0.2, 2.0)) if (p1, p2) != (r1, r2) else 0.0
            Ls, Ms = np.zeros((m1, m1, 2)), np.zeros((2, m2, m2))
            Ls[p1, r1, 0] = c
            Ms[0, p2, r2] = 1.0
            Ls[r1, r1, 1] = -c
            Ms[1, r2, r2] = 1.0
            return Ls, Ms
        if kind == 'general':
            return gen.randn(rng, (m1, m1, r), cplx), gen.randn(rng, (r, m2, m2), cplx)
        Ls, Ms = [], []
        for k in range(r):
            if kind == 'skew_real':
                a = rng.standard_normal((m1, m1))
                b = rng.standard_normal((m2, m2))
                Ls.append(a + a.T)
                Ms.append(b - b.T)
            else:
                Ls.append(-1j * herm(m1))
                Ms.append(herm(m2))
        return np.stack(Ls, axis=2), np.stack(Ms, axis=0)
    if homogeneous:
        m = dims[0]
        S = site(m)
        L, M = pair(m, m)
        if r == 1 and rng.random() < 0.5:
            L, M = L[:, :, 0], M[0]
        return S, L, np.eye(m), M, dims, True, cplx
    S = [site(m) for m in dims]
    L, M = [None] * d, [None] * d
    for i in range(d - 1):
        L[i], M[i + 1] = pair(dims[i], dims[i + 1])
        if r == 1 and rng.random() < 0.5:
            L[i], M[i + 1] = L[i][:, :, 0], M[i + 1][0]
    if len(set(dims)) == 1 and d > 1 and rng.random() < 0.5:
        # site-dependent lists that are nearly homogeneous: one set of components on every site, rescaled by 1 + O(1e-7..1e-5) per site
        # (weak disorder) or on a single site (weak impurity), or exactly equal copies / one object on all sites
        m = dims[0]
        S0 = site(m)
        L0, M0 = pair(m, m)
        u = int(rng.integers(0, 5)) if d < 5 else int(rng.integers(0, 8))
        q = float(10 ** rng.uniform(-7, -5.2))
        f = 1.0 + q * rng.standard_normal(d) if u == 0 else np.ones(d)
        if u == 1:
            f[int(rng.integers(0, d))] += q * (1 if rng.random() < 0.5 else -1)
        share = (u == 2 and rng.random() < 0.5)
        S = [S0 if share else S0 * f[i] for i in range(d)]
        for i in range(d - 1):
            L[i], M[i + 1] = (L0 if share else L0 * f[i]), (M0 if share else M0.copy())
        if u >= 3:
            # a repetitive chain (equal values on all sites) with ONE isolated modification of order one, carried by exactly one of the
            # four component lists at one site: a single strong / weak bond (L[j] or M[j]), an impurity site (S[j])
            j = int(rng.integers(0, d)) if rng.random() < 0.5 else d - 1 - int(rng.integers(0, min(2, d)))
            g = float(rng.uniform(0.2, 0.6)) if rng.random() < 0.5 else float(rng.uniform(1.7, 3.0))
            w = int(rng.integers(0, 3))
            if w == 0:
                S[j] = S0 * g
            elif w == 1 and j < d - 1:
                L[j] = L0 * g
            elif j >= 1:
                M[j] = M0 * g
    L[d - 1] = np.zeros((dims[-1], dims[-1], 1))
    M[0] = np.zeros((1, dims[0], dims[0]))
    I = [np.eye(m) for m in dims]
    return S, L, I, M, dims, False, cplx


def scale(S, L, M, f):
    if isinstance(S, list):
        return [x * f for x in S], [x * f for x in L], M
    return S * f, L * f, M


def copyc(X):
    return [x.copy() for x in X] if isinstance(X, list) else X.copy()


def state(rng, dims, cplx):
    d = len(dims)
    with probe.oracle():
        t = gen.rand_tt(rng, dims, [1] * d, gen.feasible_ranks(dims, [1] * d, gen.rand_ranks(rng, d, 3)), cplx)
        return (1.0 / t.norm()) * t


def w_step(ctx, rng, idx):
    d = int(rng.integers(2, 7))
    kind = ['general', 'skew_real', 'skew_complex', 'markov'][int(rng.integers(0, 4))]
    S, L, I, M, dims, hom, cplx = components(rng, d, kind)
    with probe.oracle():
        Ae, Ao, _ = monitors_ode.slim_dense(S, L, I, M, d)
        nA = float(np.linalg.norm(Ae + Ao, 2))
    f = 1.0 / max(nA, 1e-12)
    S, L, M = scale(S, L, M, f)
    scheme = SCHEMES[idx % 4]
    h = float(rng.uniform(0.05, 0.6))
    if rng.random() < 0.3:  # the step size as a NumPy scalar of any precision (float16 / float32 values are exactly representable doubles)
        h = [np.float64, np.float32, np.float16][int(rng.integers(0, 3))](h)
    N = int(rng.integers(1, 4))
    nz = [0, 2][int(rng.integers(0, 2))] if kind != 'general' or rng.random() < 0.5 else 0
    x0 = state(rng, dims, cplx or rng.random() < 0.3)
    if kind == 'markov':
        # probability-like states under Markov generators stay entry-wise non-negative (for the positive-coefficient schemes):
        # the setting in which the Manhattan normalisation (normalize=1, the library's plain-sum 1-norm) is meaningful
        # (Yoshida / Kahan-Li have negative sub-steps: entries may turn negative, then only the step-wise value clause - with the
        # library's plain-sum 1-norm - is asserted, not "unit 1-norm")
        nz = [1, 1, 0, 2][int(rng.integers(0, 4))]
        with probe.oracle():
            v = rng.random(dims) + 0.05
            x0 = tt.TT((v * float(rng.uniform(0.5, 3.0)) / v.sum()).reshape(list(dims) + [1] * d))
    if nz == 0 and kind != 'markov' and rng.random() < 0.3:
        # states of tiny / huge norm (a linear-response perturbation, an unnormalised decaying solution): the equations are linear,
        # nothing in the statement depends on the magnitude of the state
        with probe.oracle():
            x0 = float(10 ** rng.uniform(-14, 6)) * x0
    fn = getattr(ode, scheme + '_splitting')
    ctx.describe({'op': scheme + '_splitting', 'dims': dims, 'homogeneous': hom, 'kind': kind, 'complex': cplx, 'h': h, 'steps': N, 'normalize': nz, 'ranks': x0.ranks})
    kw = dict(threshold=[0.0, 1e-14, 1e-12][int(rng.integers(0, 3))], max_rank=10 ** 4 if rng.random() < 0.7 else max(gen.max_ranks(dims, [1] * d)), normalize=nz)
    if scheme in ('lie', 'strang') and rng.random() < 0.25:  # precomputed propagators
        coeff = [1, 1] if scheme == 'lie' else [0.5, 1]
        with probe.oracle():
            kw['K'] = getattr(ode, '__splitting_propagators')(copyc(S), copyc(L), copyc(I), copyc(M), d, h, coeff)
    if scheme == 'lie' and rng.random() < 0.3:
        kw['tmp_rank'] = int(rng.integers(10 ** 3, 10 ** 4))
    if nz > 0 and rng.random() < 0.3:
        kw['max_rank'] = int(rng.integers(1, 4))  # a rank bound that binds: only structure and the normalisation clause are asserted then
    call('ode.' + scheme + '_splitting', fn, copyc(S), copyc(L), copyc(I), copyc(M), x0, h, N, prop=P, tags=['scheme=' + scheme], **kw)
    if rng.random() < 0.5:
        # the very same component arrays and initial state serve several calls in a row (another step size, another scheme):
        # anything kept between calls, or written into the caller's arrays, shows in the later ones
        for _ in range(2):
            scheme2 = SCHEMES[int(rng.integers(0, 4))]
            h2 = float(rng.uniform(0.05, 0.6))
            call('ode.' + scheme2 + '_splitting', getattr(ode, scheme2 + '_splitting'), S, L, I, M, x0, h2, int(rng.integers(1, 3)), prop=P,
                 tags=['scheme=' + scheme2, 'second_call'], threshold=0.0, max_rank=10 ** 4, normalize=nz)
    if idx < 4:
        ctx.sample({'workload': 'step', 'scheme': scheme, 'dims': dims, 'homogeneous': hom, 'generator': kind, 'h': h, 'steps': N, 'normalize': nz, 'initial_ranks': x0.ranks})


def w_order(ctx, rng, idx):
    d = int(rng.integers(2, 5))
    kind = ['general', 'skew_real', 'skew_complex'][int(rng.integers(0, 3))]
    S, L, I, M, dims, hom, cplx = components(rng, d, kind)
    if int(np.prod(dims)) < 4:
        ctx.skip('order_chain_too_small')
        return
    with probe.oracle():
        Ae, Ao, _ = monitors_ode.slim_dense(S, L, I, M, d)
        nA = float(np.linalg.norm(Ae + Ao, 2))
        comm = float(np.linalg.norm(Ae @ Ao - Ao @ Ae, 2)) / max(nA ** 2, 1e-300)
    if comm < 1e-2:
        ctx.skip('order_even_odd_parts_nearly_commute')
        return
    f = 1.0 / nA
    S, L, M = scale(S, L, M, f)
    A = (Ae + Ao) * f
    scheme = SCHEMES[idx % 4]
    h = H_ORDER[scheme]
    x0 = state(rng, dims, cplx)
    fn = getattr(ode, scheme + '_splitting')
    ctx.describe({'op': scheme + ' observed order', 'dims': dims, 'homogeneous': hom, 'kind': kind, 'h': h})
    with probe.oracle():
        xT = sla.expm(2 * h * A) @ mat(dense(x0)).reshape(-1)
    errs = []
    for (hh, N) in ((h, 2), (h / 2, 4)):
        ok, sol = call('ode.' + scheme + '_splitting', fn, copyc(S), copyc(L), copyc(I), copyc(M), x0, hh, N, prop=P, tags=['scheme=' + scheme], threshold=0.0, max_rank=10 ** 4, normalize=0)
        if not ok:
            return
        with probe.oracle():
            errs.append(float(np.linalg.norm(mat(dense(sol[-1])).reshape(-1) - xT)))
    if not (1e-11 <= errs[1] and errs[0] <= 1e-2):
        ctx.skip('order_errors_outside_asymptotic_window')
        return
    p = float(np.log2(errs[0] / errs[1]))
    ctx.check('ode.' + scheme + '_splitting', 'observed_order', p >= MIN_ORDER[scheme], ['scheme=' + scheme], {'observed': p, 'required': MIN_ORDER[scheme], 'errors': errs, 'dims': dims, 'h': h}, prop=P)
    ctx.events['observed_order_%s_x10' % scheme] += int(round(10 * p))
    ctx.events['observed_order_%s_n' % scheme] += 1


WORKLOADS = [
    Workload('step', w_step, 240, 5000),
    Workload('order', w_order, 120, 2000),
]
REQUIRED = ['C10|ode.%s_splitting:%s' % (s, c) for s in SCHEMES for c in ('equals_composed_local_propagators', 'observed_order', 'norm_conserved_for_skew_hermitian_generator',
                                                                          'unit_2_norm', 'one_state_per_step_plus_initial', 'initial_state_heads_trajectory')] + \
           ['C06|ode.%s_splitting:argument_unchanged' % s for s in SCHEMES]
