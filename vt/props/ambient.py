"""Ambient workload for the C01-C06 runs: solver / integrator / data-driven routines are executed with the TT value
contracts armed, so that the contracts also see the operands the library itself produces (shifted operators, iterates
after sweeps, products with large ranks, transformed data tensors ...).  Failures of the outer routines are not the
business of these runs (they are decided by C07-C20) and are only counted."""
import contextlib
import importlib
import io

import numpy as np

from .. import gen, probe
from ..shard import Workload

N_KINDS = 10


def _quiet(fn, *a, **kw):
    with contextlib.redirect_stdout(io.StringIO()):
        return fn(*a, **kw)


def w_ambient(ctx, rng, idx):
    tt = importlib.import_module('scikit_tt.tensor_train')
    sle = importlib.import_module('scikit_tt.solvers.sle')
    evp = importlib.import_module('scikit_tt.solvers.evp')
    ode = importlib.import_module('scikit_tt.solvers.ode')
    tdt = importlib.import_module('scikit_tt.data_driven.transform')
    reg = importlib.import_module('scikit_tt.data_driven.regression')
    tdmd = importlib.import_module('scikit_tt.data_driven.tdmd')
    tedmd = importlib.import_module('scikit_tt.data_driven.tedmd')
    mdl = importlib.import_module('scikit_tt.models')
    qc = importlib.import_module('scikit_tt.quantum_computation')
    kind = idx % N_KINDS
    d = int(rng.integers(2, 4))
    dims = [int(rng.integers(2, 4)) for _ in range(d)]
    cplx = bool(rng.integers(0, 2))
    ctx.describe({'ambient': kind, 'dims': dims, 'complex': cplx})
    try:
        if kind == 0:
            A = gen.hermitian_tt(rng, dims, 2, cplx, hpd=True)
            b = gen.rand_tt(rng, dims, [1] * d, gen.rand_ranks(rng, d, 3), cplx)
            g = gen.rand_tt(rng, dims, [1] * d, gen.feasible_ranks(dims, [1] * d, [1] + [2] * (d - 1) + [1]), cplx)
            x = sle.als(A, g, b, repeats=2)
            tt.residual_error(A, x, b)
            (A @ x - b).norm()
            sle.mals(A, g, b, repeats=1, threshold=1e-12)
        elif kind == 1:
            A = gen.hermitian_tt(rng, dims, 2, cplx)
            g = tt.TT(gen.right_orthonormal_cores(gen.rand_cores(rng, dims, [1] * d, gen.feasible_ranks(dims, [1] * d, [1] + [2] * (d - 1) + [1]), cplx)))
            lam, x, _ = evp.als(A, g, number_ev=1, repeats=2, solver='eigh')
            (A @ x - lam * x).norm()
            evp.power_method(A, tt.TT(gen.rand_cores(rng, dims, [1] * d, gen.max_ranks(dims, [1] * d), cplx)), repeats=3, sigma=0.3)
        elif kind == 2:
            A = gen.rand_tt(rng, dims, dims, gen.rand_ranks(rng, d, 2), cplx)
            A = (0.3 / max(A.norm(), 1e-12)) * A
            x0 = gen.rand_tt(rng, dims, [1] * d, gen.max_ranks(dims, [1] * d), cplx)
            sol = ode.explicit_euler(A, x0, [0.1, 0.2], normalize=2, progress=False)
            ode.errors_expl_euler(A, sol, [0.1, 0.2])
            sol = ode.implicit_euler(A, x0, x0, [0.1, 0.1], normalize=0, progress=False)
            ode.errors_impl_euler(A, sol, [0.1, 0.1])
            sol = ode.trapezoidal_rule(A, x0, x0, [0.1], normalize=0, progress=False)
            ode.errors_trapezoidal(A, sol, [0.1])
            ode.hod(A, x0, 0.1, 2, order=4, normalize=2, progress=False)
        elif kind == 3:
            H = gen.hermitian_tt(rng, dims, 2, cplx)
            x0 = tt.TT(gen.right_orthonormal_cores(gen.rand_cores(rng, dims, [1] * d, gen.max_ranks(dims, [1] * d), cplx)))
            ode.tdvp1site(H, x0, 0.05, 2)
            ode.tdvp2site(H, x0, 0.05, 1)
            n = int(np.prod(dims))
            if n <= 12:
                ode.krylov(H, x0, n, 0.1)
        elif kind == 4:
            m = int(rng.integers(2, 4))
            S = gen.randn(rng, (m, m), cplx)
            L, M = gen.randn(rng, (m, m, 2), cplx), gen.randn(rng, (2, m, m), cplx)
            x0 = gen.rand_tt(rng, [m] * d, [1] * d, gen.rand_ranks(rng, d, 2), cplx)
            x0 = (1 / x0.norm()) * x0
            ode.lie_splitting(S, L, np.eye(m), M, x0, 0.05, 2, normalize=2)
            ode.strang_splitting(S, L, np.eye(m), M, x0, 0.05, 1)
        elif kind == 5:
            dd, m = int(rng.integers(1, 4)), int(rng.integers(3, 8))
            x = rng.uniform(-1, 1, size=(dd, m))
            y = rng.standard_normal((dd, m))
            phi = [lambda t: 1, lambda t: t, lambda t: t ** 2]
            reg.mandy_cm(x, y, phi, threshold=1e-10)
            reg.mandy_fm(x, y, [lambda t: np.sin(t), lambda t: np.cos(t)], threshold=1e-10)
            bl = [[tdt.ConstantFunction(0), tdt.Identity(i), tdt.Monomial(i, 2)] for i in range(dd)]
            psi = tdt.basis_decomposition(x, bl)
            psi.transpose(cores=[dd]).matricize()
            if dd >= 2:
                g = gen.rand_tt(rng, [3] * dd, [1] * dd, [1] + [2] * (dd - 1) + [1])
                reg.arr(x, y[:1], bl, g, repeats=1, rcond=1e-10, progress=False)
        elif kind == 6:
            nd = int(rng.integers(1, 3))
            sp = [int(rng.integers(2, 4)) for _ in range(nd)]
            m = int(rng.integers(3, 6))
            Z = rng.standard_normal((int(np.prod(sp)), 2)) @ rng.standard_normal((2, m + 1))
            xt = tt.TT(Z[:, :-1].reshape(sp + [m] + [1] * (nd + 1)))
            yt = tt.TT(Z[:, 1:].reshape(sp + [m] + [1] * (nd + 1)))
            tdmd.tdmd_exact(xt, yt, threshold=1e-10)
            tdmd.tdmd_standard(xt, yt, threshold=1e-10)
        elif kind == 7:
            dd, m = int(rng.integers(1, 3)), int(rng.integers(4, 8))
            Z = rng.uniform(-1, 1, size=(dd, m))
            bl = [[tdt.ConstantFunction(0), tdt.Sin(i, 1.0), tdt.Cos(i, 1.0)] for i in range(dd)] + [[tdt.ConstantFunction(0), tdt.Identity(0)]]
            tedmd.amuset_hosvd(Z, np.arange(0, m - 1), np.arange(1, m), bl, threshold=1e-8)
            tedmd.amuset_hocur(Z, np.arange(0, m - 1), np.arange(1, m), bl, multiplier=6)
        elif kind == 8:
            op = mdl.co_oxidation(int(rng.integers(2, 4)), 10.0 ** int(rng.integers(0, 8)), cyclic=bool(rng.integers(0, 2)))
            tt.ones([1] * op.order, op.col_dims).dot(op).norm()
            G = mdl.qft(3)
            psi = tt.unit([2] * 3, [int(b) for b in rng.integers(0, 2, size=3)])
            for g in G:
                psi = (g @ psi).ortho(threshold=1e-12)
            mdl.ising(4, 1.0, 0.5).full()
            mdl.exciton_chain(3, 0.1, -0.02).matricize()
        else:
            n = int(rng.integers(2, 6))
            psi = tt.TT(gen.right_orthonormal_cores(gen.rand_cores(rng, [2] * n, [1] * n, gen.feasible_ranks([2] * n, [1] * n, [1] + [3] * (n - 1) + [1]), True)))
            sub = sorted(int(i) for i in rng.choice(n, size=int(rng.integers(1, n + 1)), replace=False))
            qc.sampling(psi, sub, 50)
        ctx.events['ambient_completed:%d' % kind] += 1
    except Exception as e:  # decided by the checks of C07-C20
        probe.S.busy = 0
        probe.S.depth = 0
        del probe.S.targets[:]
        del probe.S.apis[:]
        ctx.events['ambient_outer_routine_raised:%d:%s' % (kind, type(e).__name__)] += 1


WORKLOAD = Workload('ambient', w_ambient, 40, 800)
