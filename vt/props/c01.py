"""C01 - TT arithmetic equals dense linear algebra.  Deciding monitors: the M2 value contracts on the real TT
API (vt.contracts_tt), armed while the workloads below (and, in `ambient`, the solvers) call it."""
import numpy as np

from .. import gen, probe
from ..drive import call, expect_refusal
from ..shard import Workload
from ._common import arm_tt
from . import ambient

P = 'C01'
tt = None


def setup(ctx):
    global tt
    tt = arm_tt(ctx)
    gen.LAYOUT = 0.15
    gen.ALIAS = 0.12
    gen.PROV = 0.25  # a quarter of the generated operands come with a history of library operations (gen.provenance)
    gen.STRUCT = 0.06  # exactly-zero tensors, unit tensors, all-ones and {-1,0,1} data


def _pair(rng, kind=None, **kw):
    rows, cols, ra = gen.rand_shape(rng, kind=kind, **kw)
    rb = gen.rand_ranks(rng, len(rows), 4)
    ca, cb = gen.rand_cplx(rng), gen.rand_cplx(rng)
    return gen.rand_tt(rng, rows, cols, ra, ca), gen.rand_tt(rng, rows, cols, rb, cb)


def w_binary(ctx, rng, idx):
    a, b = _pair(rng)
    ctx.describe({'op': '+,-', 'a': [a.row_dims, a.col_dims, a.ranks], 'b_ranks': b.ranks})
    call('TT.__add__', lambda: a + b, prop=P)
    call('TT.__sub__', lambda: a - b, prop=P)
    call('TT.__add__', lambda: a + a, prop=P)
    call('TT.__sub__', lambda: b - b, prop=P)
    if idx % 7 == 0 and a.order > 1:  # inadmissible: dimension mismatch
        c = gen.rand_tt(rng, a.row_dims[:-1] + [a.row_dims[-1] + 1], a.col_dims, a.ranks)
        expect_refusal('TT.__add__', lambda: a + c)
    if idx < 3:
        ctx.sample({'workload': 'binary', 'a': {'row_dims': a.row_dims, 'col_dims': a.col_dims, 'ranks': a.ranks, 'complex': [bool(np.iscomplexobj(c)) for c in a.cores]},
                    'b': {'ranks': b.ranks, 'complex': [bool(np.iscomplexobj(c)) for c in b.cores]}, 'ops': ['a+b', 'a-b', 'a+a', 'b-b']})


def w_scalar(ctx, rng, idx):
    rows, cols, r = gen.rand_shape(rng)
    a = gen.rand_tt(rng, rows, cols, r, gen.rand_cplx(rng))
    s = gen.rand_scalar(rng)
    ctx.describe({'op': '*', 'scalar': repr(s), 'a': [rows, cols, r]})
    call('TT.__mul__', lambda: a * s, prop=P)
    call('TT.__rmul__', lambda: s * a, prop=P)
    for ns in (np.float64(1.5), np.complex128(0.5 - 2j)):
        call('TT.__mul__', lambda: a * ns, prop=P)
    if idx % 5 == 0:
        expect_refusal('TT.__mul__', lambda: a * 'x')
        expect_refusal('TT.__mul__', lambda: a * np.int64(2))


def w_matmul(ctx, rng, idx):
    d = int(rng.integers(1, 5))
    m = gen.rand_dims(rng, d, 3)
    n = gen.rand_dims(rng, d, 3)
    p = gen.rand_dims(rng, d, 3)
    k = int(rng.integers(0, 5))
    if k == 0:
        p = [1] * d  # operator @ vector
    elif k == 1:
        m = [1] * d
        p = [1] * d  # row vector @ vector -> scalar
    elif k == 2:
        m = list(n)
        p = list(n)  # square
    ca, cb = gen.rand_cplx(rng), gen.rand_cplx(rng)
    a = gen.rand_tt(rng, m, n, gen.rand_ranks(rng, d, 3), ca)
    b = gen.rand_tt(rng, n, p, gen.rand_ranks(rng, d, 3), cb)
    ctx.describe({'op': '@', 'm': m, 'n': n, 'p': p, 'ra': a.ranks, 'rb': b.ranks, 'complex': [ca, cb]})
    call('TT.__matmul__', lambda: a @ b, prop=P)
    call('TT.__matmul__', lambda: a.dot(b), prop=P)
    if m == n == p:
        call('TT.__matmul__', lambda: a @ a, prop=P)
    if idx % 6 == 0:
        bad = gen.rand_tt(rng, [x + 1 for x in n], p, b.ranks)
        expect_refusal('TT.__matmul__', lambda: a @ bad)
    if idx < 2:
        ctx.sample({'workload': 'matmul', 'm': m, 'n': n, 'p': p, 'ranks_a': a.ranks, 'ranks_b': b.ranks, 'complex': [ca, cb]})


def w_views(ctx, rng, idx):
    rows, cols, r = gen.rand_shape(rng, size_cap=2048)
    cplx = gen.rand_cplx(rng)
    a = gen.rand_tt(rng, rows, cols, r, cplx)
    d = a.order
    ctx.describe({'op': 'full/matricize/element/transpose/conj/copy/norm', 'a': [rows, cols, r], 'complex': cplx})
    call('TT.full', a.full, prop=P)
    call('TT.matricize', a.matricize, prop=P)
    call('TT.copy', a.copy, prop=P)
    call('TT.conj', a.conj, prop=P)
    call('TT.norm', lambda: a.norm(p=2), prop=P)
    call('TT.norm', lambda: a.norm(), prop=P)
    nn = gen.rand_tt(rng, rows, cols, r, False, kind='nonneg')
    call('TT.norm', lambda: nn.norm(p=1), prop=P)
    call('TT.norm', lambda: nn.norm(p=2), prop=P)
    # transpose variants
    call('TT.transpose', lambda: a.transpose(), prop=P)
    call('TT.transpose', lambda: a.transpose(conjugate=True), prop=P)
    if d > 1:
        sub = sorted(set(int(i) for i in rng.integers(0, d, size=int(rng.integers(1, d + 1)))))
        # the set of modes in every form a caller may write it: sorted list, unsorted, with an index named more than once (a merged list
        # of modes), integer array, tuple, single integer
        form = int(rng.integers(0, 6))
        if form == 1:
            sub = [int(i) for i in rng.permutation(sub)]
        elif form == 2:
            sub = [int(i) for i in rng.permutation(sub + [sub[int(rng.integers(0, len(sub)))]] * int(rng.integers(1, 3)))]
        elif form == 3:
            sub = np.array(sub)
        elif form == 4:
            sub = sub[0]
        call('TT.transpose', lambda: a.transpose(cores=sub), prop=P)
    b = a.copy()
    call('TT.transpose', lambda: b.transpose(overwrite=True), prop=P)
    c2 = a.copy()
    call('TT.conj', lambda: c2.conj(overwrite=True), prop=P)
    if rng.random() < 0.25:
        # in-place unary operations on trains in which ONE ndarray object sits at several positions (an even and an odd number of times)
        with probe.oracle():
            n_, m_, r_ = int(rng.integers(1, 4)), int(rng.integers(1, 3)), int(rng.integers(1, 3))
            site = gen.randn(rng, (r_, n_, m_, r_), True)
            reps = int(rng.integers(2, 5))
            sh = tt.TT([gen.randn(rng, (1, n_, m_, r_), True)] + [site] * reps + [gen.randn(rng, (r_, n_, m_, 1), True)])
            sh2 = tt.TT(list(sh.cores))
        call('TT.conj', sh.conj, prop=P, overwrite=True, tags=['shared_core_objects'])
        call('TT.transpose', sh2.transpose, prop=P, overwrite=True, conjugate=bool(rng.integers(0, 2)), tags=['shared_core_objects'])
    # element access
    dims = list(rows) + list(cols)
    total = int(np.prod(dims))
    if total <= 256:
        ind = [list(i) for i in gen.all_index_tuples(dims)]
    else:
        ind = [[int(rng.integers(0, x)) for x in dims] for _ in range(64)]
    for i in ind:
        call('TT.element', a.element, i, prop=P)
    if idx % 5 == 0:
        expect_refusal('TT.element', a.element, [x for x in dims])  # out of range
        expect_refusal('TT.element', a.element, [0] * (2 * d - 1))
    if idx < 2:
        ctx.sample({'workload': 'views', 'row_dims': rows, 'col_dims': cols, 'ranks': r, 'complex': cplx, 'elements_read': len(ind)})


def w_residual(ctx, rng, idx):
    d = int(rng.integers(1, 5))
    m = gen.rand_dims(rng, d, 3)
    n = gen.rand_dims(rng, d, 3)
    cplx = [gen.rand_cplx(rng) for _ in range(3)]
    A = gen.rand_tt(rng, m, n, gen.rand_ranks(rng, d, 3), cplx[0])
    x = gen.rand_tt(rng, n, [1] * d, gen.rand_ranks(rng, d, 3), cplx[1])
    b = gen.rand_tt(rng, m, [1] * d, gen.rand_ranks(rng, d, 3), cplx[2])
    ctx.describe({'op': 'residual_error', 'm': m, 'n': n, 'ranks': [A.ranks, x.ranks, b.ranks], 'complex': cplx})
    call('tt.residual_error', tt.residual_error, A, x, b, prop=P, tags=['order=%d' % d if d <= 2 else 'order>=3'])
    if rng.random() < 0.3:  # consistent system: residual 0 up to rounding relative to the operand scale
        bb = A @ x
        if isinstance(bb, tt.TT):
            call('tt.residual_error', tt.residual_error, A, x, bb, prop=P, tags=['order=%d' % d if d <= 2 else 'order>=3'])


def w_constructors(ctx, rng, idx):
    d = int(rng.integers(1, 6))
    rows = gen.rand_dims(rng, d, 4)
    cols = gen.rand_dims(rng, d, 4)
    rk = gen.rand_ranks(rng, d, 4)
    r_int = int(rng.integers(1, 4))
    ctx.describe({'op': 'constructors', 'rows': rows, 'cols': cols, 'ranks': rk})
    for r in (rk, r_int, None):
        kw = {} if r is None else {'ranks': r}
        call('tt.zeros', tt.zeros, rows, cols, prop=P, **kw)
        call('tt.ones', tt.ones, rows, cols, prop=P, **kw)
        call('tt.rand', tt.rand, rows, cols, prop=P, **kw)
        call('tt.uniform', tt.uniform, rows, prop=P, **dict(kw, norm=float(rng.random() * 3 + 0.1)))
    call('tt.uniform', tt.uniform, rows, prop=P)
    if rng.random() < 0.25:  # the boundary value of the norm: the zero tensor (as int, float or NumPy scalar)
        call('tt.uniform', tt.uniform, rows, prop=P, norm=[0, 0.0, np.float64(0.0), np.int64(0)][int(rng.integers(0, 4))], tags=['norm=0'], **({'ranks': rk} if rng.random() < 0.5 else {}))
    if rng.random() < 0.4:
        # dimensions / ranks held as narrow NumPy integers (np.int8 ... np.uint16 scalars in a list, or an integer ndarray) whose PRODUCT
        # exceeds the range of that type although every single value fits; norms held as single-precision scalars (exact values)
        dd = int(rng.integers(3, 7))
        big = [int(rng.integers(2, 5)) for _ in range(dd)]
        t_ = [np.int8, np.uint8, np.int16, np.uint16][int(rng.integers(0, 4))]
        form = int(rng.integers(0, 3))
        rows_n = np.array(big, dtype=t_) if form == 0 else [t_(x) for x in big] if form == 1 else list(big)
        rr = int(rng.integers(2, 5))
        ranks_n = [rr, t_(rr), [1] + [t_(int(rng.integers(2, 5))) for _ in range(dd - 1)] + [1]][int(rng.integers(0, 3))]
        nrm = [0.5, 1.0, 2.0, 0.25, 3.0, 1.5][int(rng.integers(0, 6))]
        nrm = np.float32(nrm) if rng.random() < 0.5 else nrm
        ctx.describe({'op': 'uniform with narrow NumPy integer dimensions / ranks', 'rows': big, 'dtype': t_.__name__, 'form': form, 'ranks': repr(ranks_n), 'norm': repr(nrm)})
        call('tt.uniform', tt.uniform, rows_n, prop=P, ranks=ranks_n, norm=nrm, tags=['narrow_integer_types'])
        call('tt.uniform', tt.uniform, rows_n, prop=P, tags=['narrow_integer_types'])
    call('tt.eye', tt.eye, rows, prop=P)
    inds = [int(rng.integers(0, x)) for x in rows]
    call('tt.unit', tt.unit, rows, inds, prop=P)
    if rng.random() < 0.3:
        # positions counted from the back (NumPy index semantics), as Python ints, NumPy ints, or in an integer array
        neg = [int(i) - int(x) if rng.random() < 0.6 else int(i) for i, x in zip(inds, rows)]
        form = int(rng.integers(0, 3))
        neg_arg = neg if form == 0 else [np.int64(i) for i in neg] if form == 1 else np.array(neg, dtype=[np.int64, np.int32, np.int8][int(rng.integers(0, 3))])
        call('tt.unit', tt.unit, rows, neg_arg, prop=P, tags=['positions_from_the_back'])


WORKLOADS = [
    Workload('binary', w_binary, 400, 6000),
    Workload('scalar', w_scalar, 200, 3000),
    Workload('matmul', w_matmul, 400, 6000),
    Workload('views', w_views, 240, 3000),
    Workload('residual', w_residual, 300, 4000),
    Workload('constructors', w_constructors, 150, 2000),
    ambient.WORKLOAD,
]

REQUIRED = ['C01|TT.__add__:value', 'C01|TT.__sub__:value', 'C01|TT.__mul__:value', 'C01|TT.__rmul__:value',
            'C01|TT.__matmul__:value', 'C01|TT.__matmul__:scalar_value', 'C01|TT.full:value', 'C01|TT.matricize:value',
            'C01|TT.element:value', 'C01|TT.transpose:value', 'C01|TT.conj:value', 'C01|TT.copy:value', 'C01|TT.norm:norm2',
            'C01|TT.norm:norm1', 'C01|tt.residual_error:value', 'C01|tt.zeros:value', 'C01|tt.ones:value', 'C01|tt.eye:value',
            'C01|tt.unit:value', 'C01|tt.uniform:norm']
