"""C13 - bundled models are generators, unitaries or Hermitian for all parameters.  Deciding monitors: Model contracts
(vt.monitors_models) armed while the driver sweeps the parameter grids (all sizes incl. the edge cases n=1,2 and
cyclic=False that the unit tests do not instantiate)."""
import numpy as np

from .. import probe, monitors_models
from ..drive import call
from ..shard import Workload
from ._common import arm_light

P = 'C13'
mdl = None


def setup(ctx):
    global mdl
    arm_light(ctx)
    mdl = monitors_models.install()


def enum_models(tier):
    q = tier == 'quick'
    out = []
    for order in range(2, 5 if q else 6):
        for cyc in (True, False):
            for ke in ([2, 6] if q else [0, 2, 4, 6, 8, 10]):
                out.append(('co_oxidation', (order, 10.0 ** ke, cyc)))
    for order in ((7,) if q else (6, 8, 10, 12)):  # larger chains: column sums and sampled off-diagonals in TT form
        for cyc in (True, False):
            out.append(('co_oxidation', (order, 1e4, cyc)))
    for d in range(2, 4 if q else 7):
        out.append(('signaling_cascade', (d,)))
    for lanes in range(2, 5 if q else 8):
        for cars in range(1, 4 if q else 6):
            if (cars + 1) ** lanes <= (3200 if q else 10 ** 6):
                out.append(('toll_station', (lanes, cars)))
    for m in range(1, 4 if q else 5):
        for ks in ([(1.0, 2.0, 1.0)] if q else [(1.0, 2.0, 1.0), (0.1, 10.0, 3.0), (5.0, 0.5, 0.01)]):
            out.append(('two_step_destruction', ks + (m,)))
    for n in range(1, 8 if q else 9):
        out.append(('qft', (n,)))
        out.append(('iqft', (n,)))
    out.append(('qfa', ()))
    out.append(('simon', ()))
    for k in range(1, 4):
        out.append(('qfan', (k,)))
    for a in (2, 4, 7, 8, 11, 13, 14):
        out.append(('shor', (a,)))
    for n in range(2, 7 if q else 9):
        for (al, be) in ([(1e-1, -1e-2), (0.7, 0.3)] if q else [(1e-1, -1e-2), (0.7, 0.3), (-1.5, 2.0), (0.0, 1.0)]):
            out.append(('exciton_chain', (n, al, be)))
    for d in range(2, 8 if q else 11):
        for (J, h) in ([(1.0, 0.5)] if q else [(1.0, 0.5), (-0.3, 2.0), (0.0, 1.0)]):
            out.append(('ising', (d, J, h)))
    for d in range(2, 6 if q else 7):
        out.append(('fpu_coefficients', (d,)))
    for d in range(2, 7 if q else 12):
        out.append(('kuramoto_coefficients', (d, 'linspace')))
        out.append(('kuramoto_coefficients', (d, 'random')))
    for D in range(1, 4):
        for L in range(1, 4):
            if 3 ** (D * L) <= 6000:
                out.append(('cantor_dust', (D, L)))
                if D > 1:
                    out.append(('multisponge', (D, L)))
                    out.append(('vicsek_fractal', (D, L)))
    for n in (1, 2, 3):
        for L in (1, 2, 3):
            if n ** (2 * L) <= 20000:
                out.append(('rgb_fractal', (n, L)))
    return out


def w_model(ctx, rng, idx, param):
    name, args = param
    ctx.describe({'model': name, 'args': [repr(a) for a in args]})
    fn = getattr(mdl, name)
    if name == 'kuramoto_coefficients':
        d = args[0]
        w = np.linspace(-5, 5, d) if args[1] == 'linspace' else rng.standard_normal(d)
        args = (d, w)
    if name == 'rgb_fractal':
        n, L = args
        args = tuple(rgb_matrix(rng, n) for _ in range(3)) + (L,)
        u = rng.random()
        if u < 0.25:  # grey-scale fractal: one and the same array object for all primaries
            args = (args[0], args[0], args[0], L)
        elif u < 0.45:  # two primaries are one object
            j, k = (int(v) for v in rng.choice(3, size=2, replace=False))
            a3 = list(args[:3])
            a3[k] = a3[j]
            args = tuple(a3) + (L,)
    # the same constructor is first asked for a neighbouring (larger / other) parameter set in the same process and then for the
    # enumerated one, and once more afterwards: whatever a constructor remembers between calls must not leak into the next result
    alt = alternative(rng, name, param[1])
    if name in ('co_oxidation', 'two_step_destruction', 'exciton_chain', 'ising') and rng.random() < 0.35:
        # ... or for *nearly* the same parameters (continuous parameters changed in the 6th-8th digit: equal for every tolerance-based
        # comparison a constructor might use to recognise "the same model as last time", different for the operator)
        q = 1.0 + float(10 ** rng.uniform(-8, -5)) * (1 if rng.random() < 0.5 else -1)
        alt = tuple((a * q if isinstance(a, float) else a) for a in args)
    if alt is not None and rng.random() < 0.6:
        call('models.' + name, fn, *alt, prop=P, tags=['model=' + name, 'neighbour_call'])
    mutable_params = name in ('co_oxidation', 'two_step_destruction', 'exciton_chain', 'ising') and rng.random() < 0.2
    if mutable_params:
        # continuous parameters held in MUTABLE numeric objects (0-d arrays, 0-d views into the caller's parameter table): the values a
        # constructor is given stay the caller's - it is asked again with the same objects below
        tbl = np.array([float(a) if isinstance(a, float) else 0.0 for a in args])
        args = tuple((np.array(a) if rng.random() < 0.5 else tbl[k_][...]) if isinstance(a, float) else a for k_, a in enumerate(args))
    ok, res = call('models.' + name, fn, *args, prop=P, tags=['model=' + name] + (['parameters_in_mutable_objects'] if mutable_params else []))
    if mutable_params or rng.random() < 0.4:
        # the caller changes what it was handed (documented in-place operations on the returned trains / arrays) and asks again:
        # the second answer must be a fresh, correct one
        if ok:
            scribble(rng, res)
        call('models.' + name, fn, *args, prop=P, tags=['model=' + name, 'repeated_call'])
        if rng.random() < 0.6:
            # ... and other constructors after that: whatever two constructors share (tables, core lists) must not carry the scribbling over
            other = OTHERS[int(rng.integers(0, len(OTHERS)))]
            call('models.' + other[0], getattr(mdl, other[0]), *other[1], prop=P, tags=['model=' + other[0], 'after_scribbling_on_' + name])
    if idx % 37 == 0:
        ctx.sample({'workload': 'models', 'model': name, 'args': [repr(a)[:60] for a in param[1]]})


def w_circuit_history(ctx, rng, idx):
    """qft / iqft in random order and of random sizes (registers beyond the sizes of the parameter grid included) - this workload runs
    first in every fresh shard process, so the first circuits built in a process are inverse or forward transforms, small or large"""
    seq = [(['qft', 'iqft'][int(rng.integers(0, 2))], int(rng.integers(1, 13))) for _ in range(int(rng.integers(2, 5)))]
    if idx % 2 == 0:
        seq[0] = (seq[0][0], int(rng.integers(9, 13)))
    if idx % 3 == 1:
        # registers far beyond a dense vector (the gate groups stay small trains): 17-128 qubits, decided structurally (finite entries, exact
        # unitarity from the cores)
        seq.append((['qft', 'iqft'][int(rng.integers(0, 2))], int([17, 33, 63, 64, 65, 66, 70, 96, 128][int(rng.integers(0, 9))])))
    ctx.describe({'model': 'qft/iqft history', 'calls': [list(sq) for sq in seq]})
    for (name, n) in seq:
        call('models.' + name, getattr(mdl, name), n, prop=P, tags=['model=' + name, 'history'])
    if idx < 2:
        ctx.sample({'workload': 'circuit_history', 'calls': [list(sq) for sq in seq]})


def w_related(ctx, rng, idx):
    """constructors that build related circuits (adder / chain of adders, transform / inverse transform) called one after the other, the
    caller changing each result in place (documented in-place methods, core assignment) before the next constructor is asked"""
    fam = [[('qfa', ()), ('qfan', (2,)), ('qfan', (3,)), ('qfa', ()), ('qfan', (1,))],
           [('qft', (4,)), ('iqft', (4,)), ('qft', (4,)), ('iqft', (3,)), ('qft', (5,))],
           [('cantor_dust', (2, 1)), ('multisponge', (2, 1)), ('vicsek_fractal', (2, 1)), ('cantor_dust', (2, 2))],
           [('signaling_cascade', (2,)), ('two_step_destruction', (1.0, 2.0, 1.0, 2)), ('co_oxidation', (2, 1e4, True)), ('signaling_cascade', (3,))]][idx % 4]
    order = list(rng.permutation(len(fam)))
    ctx.describe({'model': 'related constructors', 'calls': [list(fam[i]) for i in order]})
    for i in order:
        name, a = fam[i]
        ok, res = call('models.' + name, getattr(mdl, name), *a, prop=P, tags=['model=' + name, 'related_sequence'])
        if ok:
            scribble(rng, res)


OTHERS = [('qfa', ()), ('qfan', (1,)), ('qfan', (2,)), ('qfan', (3,)), ('qft', (3,)), ('iqft', (3,)), ('qft', (5,)), ('iqft', (4,)), ('simon', ()), ('shor', (7,)), ('shor', (11,)),
          ('signaling_cascade', (2,)), ('toll_station', (2, 1)), ('cantor_dust', (1, 2)), ('multisponge', (2, 1)), ('vicsek_fractal', (2, 1)), ('two_step_destruction', (1.0, 2.0, 1.0, 2)),
          ('co_oxidation', (2, 1e4, True)), ('exciton_chain', (3, 0.1, -0.01)), ('ising', (3, 1.0, 0.5)), ('fpu_coefficients', (2,))]


def rgb_matrix(rng, n):
    """primaries of different dtypes: float64, float32, integer / boolean masks"""
    k = int(rng.integers(0, 6))
    if k == 5:  # integer-typed colour values of 8 / 16 / 24 bits (powers of such entries leave the int64 range from level 3-4 on)
        return rng.integers(0, 2 ** [8, 16, 24][int(rng.integers(0, 3))], size=(n, n)).astype([np.int64, np.int32, np.uint32][int(rng.integers(0, 3))])
    if k == 0:
        return rng.integers(0, 2, size=(n, n))
    if k == 1:
        return rng.random((n, n)) < 0.5
    if k == 2:
        return rng.random((n, n)).astype([np.float32, np.float16][int(rng.integers(0, 2))])
    return rng.random((n, n))


def scribble(rng, res):
    """in-place changes of a returned object by its new owner"""
    items = res if isinstance(res, (list, tuple)) else [res]
    with probe.oracle():
        for t in items:
            try:
                if hasattr(t, 'cores'):
                    u = rng.random()
                    if u < 0.3:
                        t.cores[0] = t.cores[0] * 2.0
                    elif u < 0.6:
                        t.cores[-1][...] = 0
                    elif u < 0.8:
                        t.ortho()
                    else:
                        t.transpose(overwrite=True)
                elif isinstance(t, np.ndarray) and t.flags.writeable:
                    t[...] = 0
            except Exception:
                pass


def alternative(rng, name, a):
    """a neighbouring admissible parameter set of the same model (same family / dimension, other size, level or rates)"""
    if name in ('cantor_dust', 'multisponge', 'vicsek_fractal'):
        D, L = a
        return (D, L + 1) if 3 ** (D * (L + 1)) <= 20000 else ((D, L - 1) if L > 1 else None)
    if name == 'rgb_fractal':
        n, L = a
        L2 = L + 1 if n ** (2 * (L + 1)) <= 20000 else max(L - 1, 1)
        return (rng.random((n, n)), rng.random((n, n)), rng.random((n, n)), L2)
    if name == 'co_oxidation':
        return (min(a[0] + 1, 6), a[1] * 10.0, not a[2])
    if name == 'two_step_destruction':
        return (float(rng.uniform(0.1, 5)), float(rng.uniform(0.1, 5)), float(rng.uniform(0.1, 5)), min(a[3] + 1, 4))
    if name == 'toll_station':
        return (a[0], a[1] + 1) if (a[1] + 2) ** a[0] <= 3200 else (a[0], max(a[1] - 1, 1))
    if name in ('signaling_cascade', 'qft', 'iqft', 'fpu_coefficients'):
        return (min(a[0] + 1, 8),)
    if name == 'qfan':
        return (a[0] % 3 + 1,)
    if name == 'shor':
        return ([2, 4, 7, 8, 11, 13, 14][int(rng.integers(0, 7))],)
    if name in ('exciton_chain', 'ising'):
        return (a[0] + 1, float(rng.standard_normal()), float(rng.standard_normal()))
    if name == 'kuramoto_coefficients':
        d = a[0] + 1
        return (d, rng.standard_normal(d))
    return None


def w_random(ctx, rng, idx):
    """random parameters of the continuous-parameter models"""
    k = idx % 6
    if k == 5:
        n, L = int(rng.integers(1, 4)), int(rng.integers(1, 4))
        while n ** (2 * L) > 20000:
            L -= 1
        a = tuple(rgb_matrix(rng, n) for _ in range(3)) + (L,)  # (primaries of independent dtypes)
        if rng.random() < 0.3:  # all three integer-typed with large entries
            bits = [8, 16, 24][int(rng.integers(0, 3))]
            a = tuple(rng.integers(0, 2 ** bits, size=(n, n)) for _ in range(3)) + (L,)
        ctx.describe({'model': 'rgb_fractal', 'args': [str(x.dtype) for x in a[:3]] + [L]})
        call('models.rgb_fractal', mdl.rgb_fractal, *a, prop=P, tags=['model=rgb_fractal'])
        return
    if k == 0:
        a = (int(rng.integers(2, 5)), float(10 ** rng.uniform(-2, 10)), bool(rng.integers(0, 2)))
        name = 'co_oxidation'
    elif k == 1:
        a = (float(10 ** rng.uniform(-2, 2)), float(10 ** rng.uniform(-2, 2)), float(10 ** rng.uniform(-2, 2)), int(rng.integers(1, 4)))
        name = 'two_step_destruction'
    elif k == 2:
        a = (int(rng.integers(2, 8)), float(rng.standard_normal()), float(rng.standard_normal()))
        name = 'exciton_chain'
    elif k == 3:
        a = (int(rng.integers(2, 10)), float(rng.standard_normal()), float(rng.standard_normal()))
        name = 'ising'
    else:
        d = int(rng.integers(2, 9))
        a = (d, rng.standard_normal(d))
        name = 'kuramoto_coefficients'
    ctx.describe({'model': name, 'args': [repr(x)[:60] for x in a]})
    call('models.' + name, getattr(mdl, name), *a, prop=P, tags=['model=' + name])


WORKLOADS = [
    Workload('circuit_history', w_circuit_history, 8, 32),
    Workload('related', w_related, 8, 40),
    Workload('models', w_model, None, None, enum=enum_models),
    Workload('random_parameters', w_random, 100, 1500),
]
REQUIRED = ['C13|models.co_oxidation:column_sums_vanish', 'C13|models.co_oxidation:off_diagonals_non_negative', 'C13|models.co_oxidation:equals_reaction_network_generator',
            'C13|models.signaling_cascade:column_sums_vanish', 'C13|models.signaling_cascade:off_diagonals_non_negative', 'C13|models.toll_station:column_sums_vanish',
            'C13|models.toll_station:off_diagonals_non_negative', 'C13|models.two_step_destruction:column_sums_vanish', 'C13|models.two_step_destruction:off_diagonals_non_negative',
            'C13|models.qft:gate_group_unitary', 'C13|models.qft:groups_multiply_to_bit_reversed_dft', 'C13|models.iqft:groups_multiply_to_bit_reversed_dft',
            'C13|models.qfa:unitary', 'C13|models.qfan:unitary', 'C13|models.shor:unitary', 'C13|models.exciton_chain:equals_periodic_chain_hamiltonian',
            'C13|models.ising:equals_energy_function', 'C13|models.fpu_coefficients:reproduces_fpu_right_hand_side',
            'C13|models.kuramoto_coefficients:reproduces_kuramoto_right_hand_side', 'C13|models.cantor_dust:equals_kronecker_power_of_generator',
            'C13|models.multisponge:equals_kronecker_power_of_generator', 'C13|models.vicsek_fractal:equals_kronecker_power_of_generator',
            'C13|models.rgb_fractal:channels_are_kronecker_powers']
