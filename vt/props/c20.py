"""C20 - quantum sampling draws from the Born distribution of the measured qubits.  Deciding monitor: Sampling contract
(vt.monitors_sampling): exact prediction from the captured uniform variates + chi-square check + state unchanged."""
import itertools

import numpy as np

from .. import gen, probe, monitors_sampling
from ..drive import call
from ..shard import Workload
from ._common import arm_light

P = 'C20'
tt = None
qc = None


def setup(ctx):
    global tt, qc
    tt = arm_light(ctx)
    qc = monitors_sampling.install()


def state(rng, n):
    ranks = gen.feasible_ranks([2] * n, [1] * n, [1] + [int(rng.integers(1, 5)) for _ in range(n - 1)] + [1])
    cplx = rng.random() < 0.7
    with probe.oracle():
        return tt.TT(gen.right_orthonormal_cores(gen.rand_cores(rng, [2] * n, [1] * n, ranks, cplx)))


def enum_subsets(tier):
    out = []
    for n in range(1, 5):
        for k in range(1, n + 1):
            for sub in itertools.combinations(range(n), k):
                out.append((n, list(sub)))
    return out * (2 if tier == 'quick' else 12)


def w_subsets(ctx, rng, idx, param):
    n, sub = param
    psi = state(rng, n)
    N = [1, 7, 100, 1000][int(rng.integers(0, 4))]
    ctx.describe({'op': 'sampling', 'qubits': n, 'measured': sub, 'ranks': psi.ranks, 'samples': N})
    call('quantum_computation.sampling', qc.sampling, psi, list(sub), N, prop=P)
    if idx < 3:
        ctx.sample({'workload': 'subsets', 'qubits': n, 'measured': sub, 'ranks': psi.ranks, 'number_of_samples': N})


def w_random(ctx, rng, idx):
    n = int(rng.integers(1, 7))
    psi = state(rng, n)
    if rng.random() < 0.2:
        with probe.oracle():
            psi = gen.relayout_tt(rng, psi)  # state cores in other memory layouts
    k = int(rng.integers(1, n + 1))
    sub = sorted(int(i) for i in rng.choice(n, size=k, replace=False))
    N = int(10 ** rng.uniform(0, 5 if idx % 4 == 0 else 3.5))
    ctx.describe({'op': 'sampling', 'qubits': n, 'measured': sub, 'ranks': psi.ranks, 'samples': N})
    # the measured sites as a list of Python ints, of NumPy integers, or as an integer array; the sample count as a NumPy integer
    form = int(rng.integers(0, 4))
    ml = [sub, [np.int64(i) for i in sub], np.array(sub), [gen.as_int(rng, i, p=1.0) for i in sub]][form]
    call('quantum_computation.sampling', qc.sampling, psi, ml, gen.as_int(rng, N, p=0.3), prop=P)


def w_special(ctx, rng, idx):
    """structured states: basis states, GHZ-like, states with exactly-zero outcomes"""
    n = int(rng.integers(2, 6))
    k = idx % 4
    if k == 3:
        # textbook matrix-product forms (copy tensors), not a generic gauge: GHZ with single-qubit gates (H, X, Y, Z, S, T) applied to the
        # physical legs - normalised and right-orthonormal, with exactly vanishing / exactly cancelling entries in the boundary tensors
        n = int(rng.integers(2, 9))
        cores = []
        for i in range(n):
            c = np.zeros((1 if i == 0 else 2, 2, 1, 1 if i == n - 1 else 2), dtype=complex)
            for b in range(2):
                c[0 if i == 0 else b, b, 0, 0 if i == n - 1 else b] = 1.0
            cores.append(c)
        cores[0] = cores[0] / np.sqrt(2)
        gates = {'H': np.array([[1, 1], [1, -1]]) / np.sqrt(2), 'X': np.array([[0, 1], [1, 0]]), 'Y': np.array([[0, -1j], [1j, 0]]), 'Z': np.diag([1, -1]),
                 'S': np.diag([1, 1j]), 'T': np.diag([1, np.exp(0.25j * np.pi)])}
        applied = []
        for i in range(n):
            if rng.random() < 0.5:
                g = list(gates)[int(rng.integers(0, len(gates)))]
                cores[i] = np.einsum('st,atcb->ascb', gates[g], cores[i])
                applied.append((i, g))
        if rng.random() < 0.5:
            cores = [np.real(c) if not np.any(np.imag(c)) else c for c in cores]  # (real cores where the amplitudes are real: mixed dtypes)
        with probe.oracle():
            t = tt.TT(cores)
        sub = sorted(int(i) for i in rng.choice(n, size=int(rng.integers(1, n + 1)), replace=False))
        N = int(10 ** rng.uniform(1, 4.2))
        ctx.describe({'op': 'sampling textbook GHZ + gates', 'qubits': n, 'gates': applied, 'measured': sub, 'samples': N})
        call('quantum_computation.sampling', qc.sampling, t, sub, N, prop=P)
        return
    v = np.zeros([2] * n, dtype=complex)
    if k == 0:
        v[tuple(int(b) for b in rng.integers(0, 2, size=n))] = 1.0
    elif k == 1:
        v[(0,) * n] = 1 / np.sqrt(2)
        v[(1,) * n] = np.exp(1j * rng.uniform(0, 6.28)) / np.sqrt(2)
    else:
        for _ in range(3):
            v[tuple(int(b) for b in rng.integers(0, 2, size=n))] += rng.standard_normal() + 1j * rng.standard_normal()
        v = v / np.linalg.norm(v.reshape(-1))
    with probe.oracle():
        t = tt.TT(v.reshape([2] * n + [1] * n))
        t = tt.TT(gen.right_orthonormal_cores(t.cores))
    sub = sorted(int(i) for i in rng.choice(n, size=int(rng.integers(1, n + 1)), replace=False))
    N = int(10 ** rng.uniform(1, 4.2))
    ctx.describe({'op': 'sampling special state', 'qubits': n, 'kind': k, 'measured': sub, 'samples': N})
    call('quantum_computation.sampling', qc.sampling, t, sub, N, prop=P)


def w_sequence(ctx, rng, idx):
    """call sequences on ONE live state object: sample, apply single-qubit gates in place (a unitary on a physical leg keeps the
    state normalised and right-orthonormal), sample again with the same / another measure list - anything remembered between
    calls (keyed on the object rather than its value) shows only here"""
    n = int(rng.integers(1, 6))
    psi = state(rng, n)
    subs = [sorted(int(i) for i in rng.choice(n, size=int(rng.integers(1, n + 1)), replace=False)) for _ in range(2)]
    ctx.describe({'op': 'sampling sequence', 'qubits': n, 'measure_lists': subs, 'ranks': psi.ranks})
    for step in range(int(rng.integers(3, 7))):
        sub = subs[int(rng.integers(0, 2))]
        N = [1, 50, 400][int(rng.integers(0, 3))]
        call('quantum_computation.sampling', qc.sampling, psi, list(sub), N, prop=P, tags=['sequence'])
        if rng.random() < 0.7:
            j = int(rng.integers(0, n))
            a = rng.standard_normal((2, 2)) + 1j * rng.standard_normal((2, 2))
            u, _ = np.linalg.qr(a)
            with probe.oracle():
                if rng.random() < 0.5:
                    psi.cores[j] = np.einsum('ab,rbcs->racs', u, psi.cores[j])  # rebinding the list entry
                else:
                    psi.cores[j][...] = np.einsum('ab,rbcs->racs', u, psi.cores[j].astype(complex)) if np.iscomplexobj(psi.cores[j]) else psi.cores[j]
                    # (a real core cannot hold the complex result in place: left as it is)


def w_large(ctx, rng, idx):
    """registers far beyond a dense state vector (up to 72 qubits, often more than 53 measured sites - the mantissa of a double - and,
    for two kinds, more than 64 and 560-700 measured sites): product states, GHZ-type states, random right-orthonormal states of rank 2,
    entangled qubits separated by long basis-state stretches, long chains of crossing entangled pairs; decided by the transfer-matrix oracle"""
    n = int(rng.integers(20, 73))
    kind = idx % 6
    n0 = 0
    with probe.oracle():
        if kind == 4:
            # a few entangled qubits, a stretch of 64-80 qubits in (nearly) basis states, then qubits entangled with the FIRST ones:
            # samples that differ in their leading outcomes agree on the next 64+ outcomes, and the last outcomes depend on the first
            h, t_, n0 = int(rng.integers(1, 3)), int(rng.integers(1, 4)), int(rng.integers(64, 81))
            base = gen.right_orthonormal_cores(gen.rand_cores(rng, [2] * (h + t_), [1] * (h + t_), [min(r, 4) for r in gen.max_ranks([2] * (h + t_), [1] * (h + t_))], True))
            r = base[h].shape[0]
            eps = 0.0 if rng.random() < 0.6 else float(10 ** rng.uniform(-3, -1))
            mid = []
            for _ in range(n0):
                v = np.array([np.cos(eps), np.sin(eps) * np.exp(1j * rng.uniform(0, 6.28))], dtype=complex)
                if rng.random() < 0.5:
                    v = v[::-1].copy()
                mid.append(np.einsum('ab,s->asb', np.eye(r), v).reshape(r, 2, 1, r))
            psi = tt.TT(list(base[:h]) + mid + list(base[h:]))
            n = h + n0 + t_
        elif kind == 5:
            # 560-700 qubits, nearly one bit of entropy each: a product of entangled PAIRS on non-neighbouring qubits (2j-1, 2j+2), so that
            # every bond is crossed by one or two pairs (ranks 2-4) and outcomes are correlated across every bond; the joint probability
            # of a sampled prefix falls below 1e-150 after about 500 qubits
            n = 2 * int(rng.integers(280, 351))
            first = [0] + list(range(1, n - 2, 2))
            second = [2] + list(range(4, n, 2)) + [n - 1]
            second = second[:len(first)]
            partner = {}
            for a_, b_ in zip(first, second):
                partner[a_], partner[b_] = ('open', b_), ('close', a_)
            amp = {}
            for a_ in first:
                pa, c1, c2 = rng.uniform(0.4, 0.6), rng.uniform(0.6, 0.85), rng.uniform(0.6, 0.85)
                Pm = np.array([[pa * c1, pa * (1 - c1)], [(1 - pa) * (1 - c2), (1 - pa) * c2]])
                amp[a_] = np.sqrt(Pm) * np.exp(1j * rng.uniform(0, 6.28, size=(2, 2)))
            open_pairs, cores = [], []
            for i in range(n):
                rl = 2 ** len(open_pairs)
                if partner[i][0] == 'open':
                    new_open = open_pairs + [i]
                    cr = np.zeros((rl, 2, 1, 2 * rl), dtype=complex)
                    for a_ in range(rl):
                        for s_ in (0, 1):
                            cr[a_, s_, 0, 2 * a_ + s_] = 1.0
                else:
                    j = open_pairs.index(partner[i][1])
                    new_open = open_pairs[:j] + open_pairs[j + 1:]
                    cr = np.zeros((rl, 2, 1, rl // 2), dtype=complex)
                    L_ = len(open_pairs)
                    for a_ in range(rl):
                        bits = [(a_ >> (L_ - 1 - q)) & 1 for q in range(L_)]
                        v_ = bits[j]
                        rest = bits[:j] + bits[j + 1:]
                        b_ = 0
                        for q in rest:
                            b_ = 2 * b_ + q
                        for s_ in (0, 1):
                            cr[a_, s_, 0, b_] = amp[partner[i][1]][v_, s_]
                cores.append(cr)
                open_pairs = new_open
            psi = tt.TT(gen.right_orthonormal_cores(cores))
        elif kind == 3:
            # a long register in a basis state (no entropy) followed by a few entangled qubits: all sampled strings agree on the
            # leading 54-66 bits and differ only in the tail
            n0, n1 = int(rng.integers(54, 67)), int(rng.integers(3, 7))
            n = n0 + n1
            cores = []
            for _ in range(n0):
                v = np.zeros(2, dtype=complex)
                v[int(rng.integers(0, 2))] = 1.0
                cores.append(v.reshape(1, 2, 1, 1))
            tail = gen.right_orthonormal_cores(gen.rand_cores(rng, [2] * n1, [1] * n1, gen.max_ranks([2] * n1, [1] * n1), True))
            psi = tt.TT(cores + list(tail))
        elif kind == 0:
            cores = []
            for _ in range(n):
                v = rng.standard_normal(2) + 1j * rng.standard_normal(2)
                if rng.random() < 0.3:
                    v[int(rng.integers(0, 2))] = 0.0
                cores.append((v / np.linalg.norm(v)).reshape(1, 2, 1, 1))
            psi = tt.TT(cores)
        elif kind == 1:
            cores = []
            for i in range(n):
                r1, r2 = (1 if i == 0 else 2), (1 if i == n - 1 else 2)
                cr = np.zeros((r1, 2, 1, r2), dtype=complex)
                cr[0, 0, 0, 0] = 1.0
                cr[r1 - 1, 1, 0, r2 - 1] = 1.0
                cores.append(cr)
            cores[0] = cores[0] * np.array([np.cos(0.7), np.exp(1j * rng.uniform(0, 6.28)) * np.sin(0.7)]).reshape(1, 2, 1, 1) if False else cores[0] / np.sqrt(2)
            psi = tt.TT(cores)
        else:
            psi = tt.TT(gen.right_orthonormal_cores(gen.rand_cores(rng, [2] * n, [1] * n, [1] + [2] * (n - 1) + [1], True)))
    k = n if rng.random() < 0.5 else int(rng.integers(max(1, n - 10), n + 1))
    sub = sorted(int(i) for i in rng.choice(n, size=k, replace=False))
    N = [1, 20, 200][int(rng.integers(0, 3))]
    if kind == 4:
        sub, N = list(range(n)) if rng.random() < 0.7 else sorted(set(range(n)) - {int(rng.integers(2, n - 3))}), [50, 200, 1000][int(rng.integers(0, 3))]
        k = len(sub)
    if kind == 5:
        sub, N = list(range(n)) if rng.random() < 0.7 else sorted(set(range(n)) - set(int(i) for i in rng.choice(n, size=5, replace=False))), [10, 40][int(rng.integers(0, 2))]
        k = len(sub)
    if kind == 3:
        sub, k, N = list(range(n)) if rng.random() < 0.6 else sorted(set(range(n)) - {int(rng.integers(0, n0))}), n, [50, 200, 1000][int(rng.integers(0, 3))]
        k = len(sub)
    ctx.describe({'op': 'sampling large register', 'qubits': n, 'measured': k, 'kind': ['product', 'ghz', 'random_rank2', 'basis_prefix_entangled_tail', 'entangled_head_and_tail_around_basis_stretch', 'long_chain_of_crossing_pairs'][kind], 'samples': N})
    call('quantum_computation.sampling', qc.sampling, psi, sub, N, prop=P, tags=['large_register'])


def w_huge_environment(ctx, rng, idx):
    """thorough tier only (about 1.5 GB per case): a 9-qubit state of full rank with 1100-1700 samples - the squared ranks on both sides
    of the middle bonds times the sample count exceed 2^26 entries, the size where an implementation may start to work block-wise"""
    n = 9
    with probe.oracle():
        psi = tt.TT(gen.right_orthonormal_cores(gen.rand_cores(rng, [2] * n, [1] * n, gen.max_ranks([2] * n, [1] * n), True)))
    N = int(rng.integers(1100, 1700))
    sub = list(range(n)) if rng.random() < 0.5 else sorted(int(i) for i in rng.choice(n, size=7, replace=False))
    ctx.describe({'op': 'sampling with a huge left environment', 'qubits': n, 'measured': sub, 'samples': N})
    call('quantum_computation.sampling', qc.sampling, psi, sub, N, prop=P, tags=['huge_environment'])


WORKLOADS = [
    Workload('subsets', w_subsets, None, None, enum=enum_subsets),
    Workload('random', w_random, 160, 3000),
    Workload('special', w_special, 60, 1200),
    Workload('sequence', w_sequence, 80, 1500),
    Workload('large', w_large, 24, 300),
    Workload('huge_environment', w_huge_environment, 0, 1),
]
REQUIRED = ['C20|quantum_computation.sampling:equals_inverse_cdf_sampling_of_born_marginal', 'C20|quantum_computation.sampling:frequencies_sum_to_one',
            'C20|quantum_computation.sampling:bit_strings_distinct', 'C20|quantum_computation.sampling:frequencies_converge_to_born_marginal',
            'C06|quantum_computation.sampling:argument_unchanged']
