"""C06 part (iii): solver / integrator / data-driven routines called on live pool objects (initial guesses, operators,
right-hand sides, previous values, snapshot tensors, list-valued guesses); after every call and after in-place
consumers applied to the results, every live object that is not the declared target must be unchanged."""
import contextlib
import importlib
import io

import numpy as np

from .. import gen, probe
from ..drive import call
from ..shard import Workload

P = 'C06'
M = {}


def setup(ctx):
    from .. import monitors_sle, monitors_evp, monitors_ode, monitors_regression, monitors_tdmd, monitors_tedmd, monitors_sampling, monitors_transform
    M['tt'] = importlib.import_module('scikit_tt.tensor_train')
    M['sle'] = monitors_sle.install()
    M['evp'] = monitors_evp.install()
    M['ode'] = monitors_ode.install()
    monitors_ode.install_splitting()
    monitors_ode.install_tdvp()
    monitors_transform.install()
    M['reg'] = monitors_regression.install()
    M['tdmd'] = monitors_tdmd.install()
    M['tedmd'] = monitors_tedmd.install()
    M['qc'] = monitors_sampling.install()
    M['tdt'] = importlib.import_module('scikit_tt.data_driven.transform')


def _consume(pool, rng, objs):
    from . import c06
    for t in objs:
        if isinstance(t, M['tt'].TT) and any(it[0] is t for it in pool.items):
            fn = [c06.c_ortho_left, c06.c_ortho_right, c06.c_ortho, c06.c_ortho_trunc][int(rng.integers(0, 4))]
            c06.step_consumer(pool, rng, fn, target=t)


def w_solver_pool(ctx, rng, idx):
    from . import c06
    tt, sle, evp, ode = M['tt'], M['sle'], M['evp'], M['ode']
    d = int(rng.integers(2, 4))
    if idx % 5 == 0 and rng.random() < 0.35:
        d = 1  # a one-core system: the micro system IS the system and the micro right-hand side may be the caller's core itself
    dims = [int(rng.integers(1, 4)) for _ in range(d)]
    if int(np.prod(dims)) == 1:
        dims[0] = 2
    cplx = bool(rng.integers(0, 2))
    pool = c06.Pool(ctx)
    with probe.oracle():
        A = gen.hermitian_tt(rng, dims, 2, cplx, hpd=True)
        H = gen.hermitian_tt(rng, dims, 2, cplx)
        H = (1.0 / max(H.norm(), 1e-12)) * H
        b = gen.rand_tt(rng, dims, [1] * d, gen.rand_ranks(rng, d, 2, p_one=0.5), cplx)
        g = gen.rand_tt(rng, dims, [1] * d, gen.feasible_ranks(dims, [1] * d, gen.rand_ranks(rng, d, 2, p_one=0.5)), cplx)
        go = tt.TT(gen.right_orthonormal_cores(gen.rand_cores(rng, dims, [1] * d, gen.feasible_ranks(dims, [1] * d, [1] + [2] * (d - 1) + [1]), cplx)))
        gm = gen.rand_tt(rng, dims, [1] * d, gen.max_ranks(dims, [1] * d), cplx)
    for o, n in ((A, 'A'), (H, 'H'), (b, 'b'), (g, 'g'), (go, 'go'), (gm, 'gm')):
        pool.add(o, 'init#' + n)
    refus = (np.linalg.LinAlgError,)
    kind = idx % 5
    new = []

    def step(name, fn, *a, **kw):
        ok, r = call(name, fn, *a, prop=P, refusals=refus + (IndexError,) if name == 'ode.tdvp' else refus, **kw)
        pool.history.append(name)
        pool.audit(name)
        return r if ok else None
    if kind == 0:
        x = step('sle.als', sle.als, A, g, b, repeats=int(rng.integers(1, 3)), solver=['solve', 'lu'][int(rng.integers(0, 2))])
        y = step('sle.mals', sle.mals, A, g, b, repeats=1, threshold=1e-12) if d > 1 else None
        new = [x, y]
        ms = ['solve', 'lu'][int(rng.integers(0, 2))]
        with probe.oracle():
            As = (0.3 / max(A.norm(), 1e-12)) * A
        pool.add(As, 'init#As')
        r = step('ode.implicit_euler', ode.implicit_euler, As, b, g, [0.1, 0.1], micro_solver=ms, normalize=0, progress=False)
        if r is not None:
            new += list(r[1:])
        r = step('ode.trapezoidal_rule', ode.trapezoidal_rule, As, b, g, [0.1], micro_solver=ms, normalize=0, progress=False)
        if r is not None:
            new += list(r[1:])
    elif kind == 1:
        micro = min(go.ranks[i] * dims[i] * go.ranks[i + 1] for i in range(d))
        r = step('evp.als', evp.als, H, go, number_ev=2 if micro >= 2 else 1, repeats=2, solver='eigh')
        if r is not None and micro < 2:
            r = (r[0], [r[1]], r[2])
        if r is not None:
            new = list(r[1])
        r = step('evp.als', evp.als, H, go, previous=[go], shift=0.5, solver='eigh')
        if r is not None:
            new.append(r[1])
        r = step('evp.power_method', evp.power_method, A, gm, repeats=3, sigma=0.3)
        if r is not None:
            new.append(r[1])
        # generalised problems: the right-hand operator is a tensor-train argument as well (over-parameterised on purpose: A + 0*A)
        with probe.oracle():
            B = A + 0.0 * A
        pool.add(B, 'init#B')
        r = step('evp.als', evp.als, H, go, operator_gevp=B, repeats=1, solver='eigh')
        if r is not None:
            new.append(r[1])
        r = step('evp.power_method', evp.power_method, H, gm, operator_gevp=B, repeats=2, sigma=0.3)
        if r is not None:
            new.append(r[1])
    elif kind == 2:
        with probe.oracle():
            Hs = (0.3 / max(H.norm(), 1e-12)) * H
        pool.add(Hs, 'init#Hs')
        for name, fn, args, kw in (('ode.explicit_euler', ode.explicit_euler, (Hs, gm, [0.1, 0.2]), dict(normalize=0, progress=False)),
                                   ('ode.implicit_euler', ode.implicit_euler, (Hs, gm, gm, [0.1]), dict(normalize=0, progress=False)),
                                   ('ode.trapezoidal_rule', ode.trapezoidal_rule, (Hs, gm, gm, [0.1]), dict(normalize=2, progress=False, tt_solver='mals')),
                                   ('ode.hod', ode.hod, (Hs, gm, 0.1, 2), dict(previous_value=g + g, normalize=0, progress=False, threshold=1e-12)),
                                   ('ode.hod', ode.hod, (Hs, gm, 0.1, 2), dict(previous_value=b, normalize=0, progress=False, max_rank=1))):
            if 'previous_value' in kw:
                pool.add(kw['previous_value'], 'init#prev')
            if name == 'ode.hod' and rng.random() < 0.6:
                # a caller-supplied series operator, hand-assembled (hence rank-redundant) - with the default and with a coarse threshold
                with probe.oracle():
                    kw['op_hod'] = 0.1 * Hs + 0.1 * Hs
                pool.add(kw['op_hod'], 'init#op_hod')
                if rng.random() < 0.5:
                    kw['threshold'] = 1e-4
            r = step(name, fn, *args, **kw)
            if r is not None:
                ctx.check(name, 'initial_state_heads_trajectory_by_identity', r[0] is args[1], prop=P)
                new += list(r[1:])
    elif kind == 3:
        r = step('ode.tdvp1site', ode.tdvp1site, H, go, 0.05, 2)
        if r is not None:
            new += list(r[1:])
        r = step('ode.tdvp2site', ode.tdvp2site, H, go, 0.05, 1, threshold=1e-12, max_rank=[2, 50][int(rng.integers(0, 2))])
        if r is not None:
            new += list(r[1:])
        step('ode.tdvp', ode.tdvp, H, go, 0.05, 1)
        with probe.oracle():
            gu = (1.0 / gm.norm()) * gm
        pool.add(gu, 'init#gu')
        kdim = int(rng.integers(1, 4))
        with probe.oracle():
            # Krylov breakdown (the initial state lies in an invariant subspace smaller than the requested dimension): the next Krylov
            # tensor is the zero tensor and its relative truncation is 0/0 - inadmissible input for ode.krylov, not a finding
            from ..dense import dense, mat
            Hm, v0 = mat(dense(H)), mat(dense(gu)).reshape(-1)
            K = np.stack([np.linalg.matrix_power(Hm, j) @ v0 for j in range(kdim)], axis=1)
            sv = np.linalg.svd(K / np.maximum(np.linalg.norm(K, axis=0, keepdims=True), 1e-300), compute_uv=False)
            breakdown = kdim > K.shape[0] or bool(sv[-1] <= 1e-10 * sv[0])
        if breakdown:
            ctx.skip('krylov_breakdown_initial_state_in_small_invariant_subspace')
            r = None
        else:
            r = step('ode.krylov', ode.krylov, H, gu, kdim, 0.1)
        new.append(r)
        m = dims[0]
        if all(x == m for x in dims):
            S = gen.randn(rng, (m, m), cplx)
            L, Mm = gen.randn(rng, (m, m, 1), cplx), gen.randn(rng, (1, m, m), cplx)
            r = step('ode.strang_splitting', ode.strang_splitting, S, L, np.eye(m), Mm, go, 0.05, 2)
            if r is not None:
                ctx.check('ode.strang_splitting', 'initial_state_heads_trajectory_by_identity', r[0] is go, prop=P)
                new += list(r[1:])
    else:
        reg, tdmd, tedmd, tdt, qc = M['reg'], M['tdmd'], M['tedmd'], M['tdt'], M['qc']
        dd, m = int(rng.integers(2, 4)), int(rng.integers(3, 7))
        x = rng.uniform(-1, 1, size=(dd, m))
        y = rng.standard_normal((2, m))
        bl = [[tdt.ConstantFunction(0), tdt.Identity(i), tdt.Monomial(i, 2)] for i in range(dd)]
        with probe.oracle():
            g1 = gen.rand_tt(rng, [3] * dd, [1] * dd, [1] + [1] * (dd - 1) + [1])  # rank-1 bonds: LAPACK works in place on its views
            g2 = gen.rand_tt(rng, [3] * dd, [1] * dd, [1] + [2] * (dd - 1) + [1])
            glist = [tt.TT([c.copy() for c in g1.cores]), tt.TT([c.copy() for c in g2.cores])]
        for o, n in ((g1, 'g1'), (g2, 'g2'), (glist[0], 'gl0'), (glist[1], 'gl1')):
            pool.add(o, 'init#' + n)
        r = step('regression.arr', reg.arr, x, y, bl, g1, repeats=2, rcond=1e-10, progress=False)
        new += list(r or [])
        r = step('regression.arr', reg.arr, x, y, bl, glist, repeats=1, rcond=1e-10, progress=False)
        new += list(r or [])
        nd = int(rng.integers(1, 3))
        sp = [int(rng.integers(1, 4)) for _ in range(nd)]
        Z = rng.standard_normal((int(np.prod(sp)), 2)) @ rng.standard_normal((2, m + 1))
        with probe.oracle():
            xt = tt.TT(Z[:, :-1].reshape(sp + [m] + [1] * (nd + 1)))
            yt = tt.TT(Z[:, 1:].reshape(sp + [m] + [1] * (nd + 1)))
        pool.add(xt, 'init#xt')
        pool.add(yt, 'init#yt')
        r = step('tdmd.tdmd_exact', tdmd.tdmd_exact, xt, yt, threshold=1e-10)
        if r is not None:
            new.append(r[1])
        r = step('tdmd.tdmd_standard', tdmd.tdmd_standard, xt, yt, threshold=1e-10)
        if r is not None:
            new.append(r[1])
        r = step('tedmd.amuset_hosvd', tedmd.amuset_hosvd, x, [np.arange(0, m - 1), np.arange(0, m - 2)], [np.arange(1, m), np.arange(2, m)], bl, threshold=1e-8)
        if r is not None:
            new += list(r[1])
        r = step('tedmd.amuset_hosvd', tedmd.amuset_hosvd, x, np.arange(0, m - 1), np.arange(1, m), bl, threshold=1e-8, ef_tf=True, st_tf=True)
        if r is not None:
            new += [r[1], r[4]]
        r = step('tedmd.amuset_hocur', tedmd.amuset_hocur, x, [np.arange(0, m - 1), np.arange(0, m - 2)], [np.arange(1, m), np.arange(2, m)], bl, multiplier=6)
        if r is not None:
            new += list(r[1])
        n = int(rng.integers(2, 5))
        with probe.oracle():
            psi = tt.TT(gen.right_orthonormal_cores(gen.rand_cores(rng, [2] * n, [1] * n, gen.feasible_ranks([2] * n, [1] * n, [1] + [2] * (n - 1) + [1]), True)))
        pool.add(psi, 'init#psi')
        step('quantum_computation.sampling', qc.sampling, psi, sorted(int(i) for i in rng.choice(n, size=int(rng.integers(1, n + 1)), replace=False)), 20)
    results = [t for t in new if isinstance(t, tt.TT)]
    for i, t in enumerate(results):
        if len(pool.items) < 16:
            pool.add(t, 'result#%d' % i)
    _consume(pool, rng, results)
    _consume(pool, rng, [g, b, go])
    ctx.describe({'solver_pool_kind': kind, 'dims': dims, 'complex': cplx, 'history': pool.history})
    ctx.sig('solver_pool', kind, tuple(pool.history[:5]))
    if idx < 5:
        ctx.sample({'workload': 'solver_pool', 'kind': kind, 'dims': dims, 'history': pool.history, 'live_objects': [it[1] for it in pool.items]})


WORKLOADS = [Workload('solver_pool', w_solver_pool, 100, 3000)]
REQUIRED = ['C06|sle.als:argument_unchanged', 'C06|evp.als:argument_unchanged', 'C06|ode.hod:argument_unchanged', 'C06|ode.tdvp1site:argument_unchanged',
            'C06|regression.arr:argument_unchanged', 'C06|tdmd.tdmd_exact:argument_unchanged', 'C06|tedmd.amuset_hosvd:returned_tt_consistent',
            'C06|quantum_computation.sampling:argument_unchanged', 'C06|ode.hod:initial_state_heads_trajectory_by_identity']
