"""C06 part (iii): solver / integrator / data-driven routines called on live objects (filled in with C07-C18)."""
WORKLOADS = []
REQUIRED = []


def setup(ctx):
    pass
