"""M6 (environment oracle at a hook) and M7 (energy trace) for the alternating linear solvers, plus the end-to-end
contract on sle.als / sle.mals (C07).  All of it observes the *live* solution object of the running solver."""
import importlib

import numpy as np

from . import core, probe
from .contracts_api import ApiImmut
from .contracts_tt import _is_tt
from .dense import dense_cores, dense_b_cores, mat, tt_consistent, Snap

sle = None
TRACE = None  # list of micro-step records of the solver call in flight (outermost call only)
CURRENT_PROP = None  # set by a caller-side contract (TDVP) so that hook observations are attributed to its property


def left_block(cores, i):
    """(prod m_<i) x r_i matrix of the cores left of site i"""
    if i == 0:
        return np.ones((1, 1))
    b = dense_b_cores([c[:, :, :1, :] for c in cores[:i]])
    return b.reshape(-1, b.shape[-1])


def right_block(cores, j):
    """r_{j} x (prod m_>=j) matrix of the cores from site j on"""
    if j >= len(cores):
        return np.ones((1, 1))
    b = dense_b_cores([c[:, :, :1, :] for c in cores[j:]])
    return b.reshape(b.shape[0], -1)


def frame(cores, i, width=1):
    """P = L_{<i} (x) I (x) R_{>i+width-1}; columns indexed (a, m_i[, m_{i+1}], b)"""
    L = left_block(cores, i)
    R = right_block(cores, i + width)
    n = 1
    for k in range(i, i + width):
        n *= cores[k].shape[1]
    P = np.einsum('xa,mn,by->xmyanb', L, np.eye(n), R)
    return P.reshape(L.shape[0] * n * R.shape[1], L.shape[1] * n * R.shape[0])


def _sq(operator):
    return list(operator.row_dims) == list(operator.col_dims)


class MicroMatrix(probe.Contract):
    def __init__(self, name, width, prop='C07'):
        self.api = 'sle.' + name
        self.width = width
        self.prop = prop

    def post(self, st, res, args, kwargs):
        i, operator, solution = args[0], args[3], args[4]
        c = core.ctx()
        if not _sq(operator) or not tt_consistent(solution)[0] or int(np.prod(operator.row_dims)) > 512:
            return
        A = mat(dense_cores(operator.cores))
        P = frame(solution.cores, i, self.width)
        want = P.conj().T @ A @ P
        sc = float(np.linalg.norm(P)) ** 2 * float(np.linalg.norm(A))
        ok = res.shape == want.shape and float(np.max(np.abs(res - want))) <= 1e-9 * max(sc, 1e-300)
        tags = (['complex'] if (np.iscomplexobj(A) or np.iscomplexobj(P)) else []) + (['within=' + probe.S.apis[0]] if probe.S.apis else [])
        c.check(self.api, 'equals_projected_operator', ok, tags + ['site=%s' % ('first' if i == 0 else 'last' if i + self.width == operator.order else 'inner')] if not ok else (),
                {'site': i, 'order': operator.order, 'err': float(np.max(np.abs(res - want))) if res.shape == want.shape else None, 'scale': sc,
                 'ranks': list(solution.ranks)}, prop=CURRENT_PROP or self.prop)
        herm = float(np.max(np.abs(A - A.conj().T))) <= 1e-12 * max(float(np.max(np.abs(A))), 1e-300)
        if herm:
            okh = float(np.max(np.abs(res - res.conj().T))) <= 1e-9 * max(sc, 1e-300)
            c.check(self.api, 'hermitian_for_hermitian_operator', okh, tags if not okh else (), {'site': i}, prop=CURRENT_PROP or self.prop)


class MicroRhs(probe.Contract):
    def __init__(self, name, width, prop='C07'):
        self.api = 'sle.' + name
        self.width = width
        self.prop = prop

    def post(self, st, res, args, kwargs):
        i, rhs, solution = args[0], args[3], args[4]
        c = core.ctx()
        if not tt_consistent(solution)[0] or int(np.prod(rhs.row_dims)) > 512:
            return
        b = mat(dense_cores(rhs.cores)).reshape(-1)
        P = frame(solution.cores, i, self.width)
        want = (P.conj().T @ b).reshape(-1, 1)
        sc = float(np.linalg.norm(P)) * float(np.linalg.norm(b))
        ok = res.shape == want.shape and float(np.max(np.abs(res - want))) <= 1e-9 * max(sc, 1e-300)
        tags = ['complex'] if (np.iscomplexobj(b) or np.iscomplexobj(P)) else []
        c.check(self.api, 'equals_projected_rhs', ok, tags if not ok else (), {'site': i, 'order': rhs.order, 'ranks': list(solution.ranks)}, prop=self.prop)


class UpdateCore(probe.Contract):
    """records one trace event per micro-step (M7): optimal micro energy, conditioning"""

    def __init__(self, name, width):
        self.api = 'sle.' + name
        self.width = width

    def pre(self, args, kwargs):
        if TRACE is None:
            return None
        i, M, r = args[0], np.array(args[1], copy=True), np.array(args[2], copy=True)
        direction = args[-1] if isinstance(args[-1], str) else kwargs.get('direction')
        ev = {'i': i, 'dir': direction, 'n': M.shape[0]}
        try:
            ev['cond'] = float(np.linalg.cond(M))
            x = np.linalg.solve(M, r)
            ev['E'] = float(-0.5 * np.real(np.vdot(r, x)))
        except Exception:
            ev['cond'] = np.inf
            ev['E'] = None
        TRACE.append(ev)
        return None


class Solver(ApiImmut):
    """end-to-end contract on sle.als / sle.mals"""
    freeze = True  # the oracle sees the arguments as they were at call entry; arrays / lists rewritten by the call are reported
    input_prop = 'C07'

    def __init__(self, name):
        ApiImmut.__init__(self, 'sle.' + name)
        self.name = name

    def pre(self, args, kwargs):
        global TRACE
        st = ApiImmut.pre(self, args, kwargs)
        st['outer'] = TRACE is None
        if st['outer']:
            TRACE = []
        return st

    def exc(self, st, e, args, kwargs):
        global TRACE
        if st is not None and st.get('outer'):
            TRACE = None
        ApiImmut.exc(self, st, e, args, kwargs)

    def post(self, st, res, args, kwargs):
        global TRACE
        trace = None
        if st is not None and st.get('outer'):
            trace, TRACE = TRACE, None
        ApiImmut.post(self, st, res, args, kwargs)
        if st is None:
            return
        names = ['operator', 'initial_guess', 'right_hand_side', 'repeats', 'solver', 'threshold', 'max_rank']
        v = {'repeats': 1, 'solver': 'solve', 'threshold': 1e-12, 'max_rank': np.inf}
        for k, a in enumerate(args):
            v[names[k]] = a
        v.update(kwargs)
        A_, g_, b_ = v['operator'], v['initial_guess'], v['right_hand_side']
        c = core.ctx()
        P = 'C07'
        if not (_is_tt(res) and tt_consistent(res)[0]):
            return
        if not _sq(A_) or int(np.prod(A_.row_dims)) > 512:
            return
        tags = [self.name, 'solver=' + str(v['solver'])]
        c.check(self.api, 'result_dims', list(res.row_dims) == list(b_.row_dims) and list(res.col_dims) == [1] * res.order and res.ranks[0] == 1 and res.ranks[-1] == 1,
                tags, {'got': [res.row_dims, res.col_dims, res.ranks], 'rhs': b_.row_dims}, prop=P)
        if self.name == 'als':
            c.check(self.api, 'ranks_not_raised', all(a <= b for a, b in zip(res.ranks, g_.ranks)), tags, {'guess': list(g_.ranks), 'result': list(res.ranks)}, prop=P)
        elif v['max_rank'] != np.inf:
            c.check(self.api, 'max_rank_respected', all(r <= v['max_rank'] for r in res.ranks), tags, {'max_rank': v['max_rank'], 'result': list(res.ranks)}, prop=P)
        A = mat(dense_cores(A_.cores))
        n = A.shape[0]
        herm = float(np.max(np.abs(A - A.conj().T))) <= 1e-12 * max(float(np.max(np.abs(A))), 1e-300)
        if not herm:
            c.skip('sle_operator_not_hermitian')
            return
        w = np.linalg.eigvalsh((A + A.conj().T) / 2)
        if not (w[0] > 1e-10 * w[-1]):
            c.skip('sle_operator_not_positive_definite')
            return
        condA = float(w[-1] / w[0])
        b = mat(dense_cores(b_.cores)).reshape(-1)
        xs = np.linalg.solve(A, b)
        g = mat(dense_cores(g_.cores)).reshape(-1)
        x = mat(dense_cores(res.cores)).reshape(-1)

        def anorm(y):
            return float(np.sqrt(max(np.real(np.vdot(y, A @ y)), 0.0)))
        eg, er = anorm(g - xs), anorm(x - xs)
        nx = anorm(xs)
        if trace is not None and any((ev['cond'] is None or ev['cond'] > 1e9) for ev in trace):
            c.skip('sle_ill_conditioned_micro_system')
            return
        cplx = np.iscomplexobj(A) or np.iscomplexobj(b) or np.iscomplexobj(g)
        tags2 = tags + (['complex'] if cplx else []) + ['order=%d' % A_.order if A_.order <= 2 else 'order>=3']
        truncating = self.name == 'mals' and (v['max_rank'] != np.inf or v['threshold'] > 1e-10)
        if not truncating:
            c.check(self.api, 'error_not_larger_than_guess', er <= eg * (1 + 1e-6) + 1e-8 * max(nx, 1e-300) * np.sqrt(condA), tags2,
                    {'err_guess': eg, 'err_result': er, 'norm_solution': nx, 'repeats': v['repeats'], 'guess_ranks': list(g_.ranks), 'dims': list(A_.row_dims), 'condA': condA}, prop=P)
        # M7: optimal micro energies non-increasing; visiting order
        if trace is not None and trace:
            d = A_.order
            wdt = 1 if self.name == 'als' else 2
            fwd = list(range(0, d - wdt))
            bwd = list(range(d - wdt, -1, -1))
            want_order = (fwd + bwd) * int(v['repeats'])
            got_order = [ev['i'] for ev in trace]
            dirs_ok = all((ev['dir'] == 'forward') == (k % len(fwd + bwd) < len(fwd)) for k, ev in enumerate(trace))
            c.check(self.api, 'sweep_order', got_order == want_order and dirs_ok, tags, {'got': got_order, 'want': want_order}, prop=P)
            if not truncating:
                Es = [ev['E'] for ev in trace]
                if all(e is not None for e in Es):
                    scale = max(abs(e) for e in Es) if Es else 0.0
                    worst = 0.0
                    for k in range(1, len(Es)):
                        worst = max(worst, Es[k] - Es[k - 1] - (1e-8 * scale + 1e-14 * max(trace[k]['cond'], trace[k - 1]['cond']) * scale))
                    c.check(self.api, 'micro_energies_non_increasing', worst <= 0.0, tags2, {'energies': Es[:24], 'sites': got_order[:24], 'worst_increase': worst}, prop=P)
                    c.events['sle_micro_steps_traced'] += len(Es)
        c.sig(self.api, self.name, v['solver'], int(v['repeats']), list(A_.row_dims), list(g_.ranks), bool(cplx), 'inf' if v['max_rank'] == np.inf else int(v['max_rank']))


def install():
    global sle
    sle = importlib.import_module('scikit_tt.solvers.sle')
    importlib.import_module('scikit_tt.solvers.ode')  # so that its imported copies of the names are replaced too
    if getattr(sle, '__vt_armed__', False):
        return sle
    probe.install(sle, '__construct_micro_matrix_als', MicroMatrix('__construct_micro_matrix_als', 1), replace_everywhere=True)
    probe.install(sle, '__construct_micro_matrix_mals', MicroMatrix('__construct_micro_matrix_mals', 2), replace_everywhere=True)
    probe.install(sle, '__construct_micro_rhs_als', MicroRhs('__construct_micro_rhs_als', 1), replace_everywhere=True)
    probe.install(sle, '__construct_micro_rhs_mals', MicroRhs('__construct_micro_rhs_mals', 2), replace_everywhere=True)
    probe.install(sle, '__update_core_als', UpdateCore('__update_core_als', 1), replace_everywhere=True)
    probe.install(sle, '__update_core_mals', UpdateCore('__update_core_mals', 2), replace_everywhere=True)
    probe.install(sle, 'als', Solver('als'), replace_everywhere=True)
    probe.install(sle, 'mals', Solver('mals'), replace_everywhere=True)
    sle.__vt_armed__ = True
    return sle
