"""Contracts on the one-step ODE schemes (C09): every element of the returned trajectory is compared with the dense
recurrence that defines the scheme, applied to the library's own previous element(s) (one-step check, no error
accumulation).  Preconditions are measured, not assumed: inner solves are exact only if the guess has maximal ranks."""
import importlib
import math

import numpy as np

from . import core, probe
from .contracts_api import ApiImmut
from .contracts_tt import _is_tt
from .dense import dense_cores, mat, tt_consistent, Snap
from .gen import max_ranks

ode = None
P = 'C09'


def vec(t):
    return mat(dense_cores(t.cores)).reshape(-1)


def opm(t):
    return mat(dense_cores(t.cores))


def lib_norm(y, p):
    """the norm as the library defines it: p=1 is the plain sum of the entries (documented for non-negative data)"""
    if p == 1:
        return np.sum(y)
    return np.linalg.norm(y)


def parse(names, defaults, args, kwargs):
    v = dict(defaults)
    for k, a in enumerate(args):
        v[names[k]] = a
    v.update(kwargs)
    return v


def small(op):
    return list(op.row_dims) == list(op.col_dims) and int(np.prod(op.row_dims)) <= 512


def is_maximal(t):
    return list(t.ranks) == max_ranks(t.row_dims, t.col_dims)


def traj_ok(c, api, res, n_expected, first, tags):
    good = isinstance(res, list) and all(_is_tt(x) for x in res)
    c.check(api, 'returns_list_of_tt', good, tags, prop=P)
    if not good:
        return False
    c.check(api, 'one_state_per_step_plus_initial', len(res) == n_expected, tags, {'len': len(res), 'expected': n_expected}, prop=P)
    c.check(api, 'initial_state_heads_trajectory', res[0] is first, tags, prop=P)
    return len(res) == n_expected and all(tt_consistent(x)[0] for x in res)


def cmp_state(c, api, check, got_tt, want, tags, detail, tol=1e-8):
    got = vec(got_tt)
    sc = max(float(np.linalg.norm(want)), 1e-300)
    err = float(np.linalg.norm(got - want)) / sc if got.shape == want.shape else np.inf
    d = dict(detail)
    d['rel_err'] = err
    return c.check(api, check, err <= tol, tags, d, prop=P)


def check_unit_norm(c, api, state, normalize, tags, k):
    y = vec(state)
    if normalize == 2:
        c.check(api, 'unit_2_norm', abs(np.linalg.norm(y) - 1) <= 1e-9, tags, {'step': k, 'norm': float(np.linalg.norm(y))}, prop=P)
    elif normalize == 1:
        if np.iscomplexobj(y) or np.any(y < -1e-12 * np.max(np.abs(y))):
            c.skip('norm1_on_data_with_negative_entries')
            return
        c.check(api, 'unit_1_norm', abs(np.sum(np.abs(y)) - 1) <= 1e-9, tags, {'step': k, 'norm': float(np.sum(np.abs(y)))}, prop=P)


class ExplicitEuler(ApiImmut):
    freeze = True  # the oracle sees the arguments as they were at call entry; arrays / lists rewritten by the call are reported
    input_prop = 'C09'
    def __init__(self):
        ApiImmut.__init__(self, 'ode.explicit_euler')

    def post(self, st, res, args, kwargs):
        ApiImmut.post(self, st, res, args, kwargs)
        v = parse(['operator', 'initial_value', 'step_sizes', 'threshold', 'max_rank', 'normalize', 'progress'],
                  {'threshold': 1e-12, 'max_rank': 50, 'normalize': 1, 'progress': True}, args, kwargs)
        c = core.ctx()
        tags = ['normalize=%s' % v['normalize']]
        if not small(v['operator']):
            return
        hs = [float(x) for x in v['step_sizes']]  # (as doubles: see Splitting)
        if not traj_ok(c, self.api, res, len(hs) + 1, v['initial_value'], tags):
            return
        A = opm(v['operator'])
        n = A.shape[0]
        effective = v['threshold'] > 1e-10 or v['max_rank'] < max(max_ranks(v['operator'].row_dims, [1] * v['operator'].order))
        for k, h in enumerate(hs):
            y = (np.eye(n) + h * A) @ vec(res[k])
            if v['normalize'] > 0:
                y = y / lib_norm(y, v['normalize'])
                check_unit_norm(c, self.api, res[k + 1], v['normalize'], tags, k)
            if not effective:
                cmp_state(c, self.api, 'equals_dense_recurrence', res[k + 1], y, tags + (['varying_steps'] if len(set(hs)) > 1 else []),
                          {'step': k, 'h': h, 'dims': list(v['operator'].row_dims)})
        c.sig(self.api, list(v['operator'].row_dims), len(hs), len(set(hs)) > 1, v['normalize'], bool(np.iscomplexobj(A)))


class ImplicitScheme(ApiImmut):
    """implicit Euler (theta=1) and trapezoidal rule (theta=1/2)"""
    freeze = True  # the oracle sees the arguments as they were at call entry; arrays / lists rewritten by the call are reported
    input_prop = 'C09'

    def __init__(self, name, theta):
        ApiImmut.__init__(self, 'ode.' + name)
        self.theta = theta

    def post(self, st, res, args, kwargs):
        ApiImmut.post(self, st, res, args, kwargs)
        v = parse(['operator', 'initial_value', 'initial_guess', 'step_sizes', 'repeats', 'tt_solver', 'threshold', 'max_rank', 'micro_solver', 'normalize', 'progress'],
                  {'repeats': 1, 'tt_solver': 'als', 'threshold': 1e-12, 'max_rank': np.inf, 'micro_solver': 'solve', 'normalize': 1, 'progress': True}, args, kwargs)
        c = core.ctx()
        tags = ['normalize=%s' % v['normalize'], 'tt_solver=' + str(v['tt_solver']), 'micro=' + str(v['micro_solver'])]
        if not small(v['operator']):
            return
        hs = [float(x) for x in v['step_sizes']]  # (as doubles: see Splitting)
        if not traj_ok(c, self.api, res, len(hs) + 1, v['initial_value'], tags):
            return
        A = opm(v['operator'])
        n = A.shape[0]
        exact = is_maximal(v['initial_guess']) and (v['tt_solver'] == 'als' or (v['threshold'] <= 1e-10 and v['max_rank'] == np.inf))
        # (repeats=0: no sweep of the inner solver, every produced state is the - normalised - guess; only the clauses that do not
        # involve the scheme's equation remain: one state per step, unit norm, arguments unchanged)
        exact = exact and int(v['repeats']) >= 1
        th = self.theta
        for k, h in enumerate(hs):
            lhs = np.eye(n) - th * h * A
            rhs = (np.eye(n) + (1 - th) * h * A) @ vec(res[k]) if th != 1 else vec(res[k])
            if np.linalg.cond(lhs) > 1e6:
                c.skip('implicit_step_ill_conditioned')
                continue
            y = np.linalg.solve(lhs, rhs)
            if v['normalize'] > 0:
                y = y / lib_norm(y, v['normalize'])
                check_unit_norm(c, self.api, res[k + 1], v['normalize'], tags, k)
            if exact:
                cmp_state(c, self.api, 'equals_dense_recurrence', res[k + 1], y, tags + (['varying_steps'] if len(set(hs)) > 1 else []),
                          {'step': k, 'h': h, 'dims': list(v['operator'].row_dims)})
        c.sig(self.api, list(v['operator'].row_dims), len(hs), len(set(hs)) > 1, v['normalize'], v['tt_solver'], v['micro_solver'], bool(np.iscomplexobj(A)), exact)


def hod_series(A, h, order):
    """2 * sum_{k=1}^{order/2} h^(2k-1)/(2k-1)! A^(2k-1)"""
    out = np.zeros_like(A, dtype=complex if np.iscomplexobj(A) else float)
    for k in range(1, order // 2 + 1):
        out = out + 2.0 * h ** (2 * k - 1) / math.factorial(2 * k - 1) * np.linalg.matrix_power(A, 2 * k - 1)
    return out


class Hod(ApiImmut):
    freeze = True  # the oracle sees the arguments as they were at call entry; arrays / lists rewritten by the call are reported
    input_prop = 'C09'
    def __init__(self):
        ApiImmut.__init__(self, 'ode.hod')

    def post(self, st, res, args, kwargs):
        ApiImmut.post(self, st, res, args, kwargs)
        v = parse(['operator', 'initial_value', 'step_size', 'number_of_steps', 'order', 'previous_value', 'op_hod', 'threshold', 'max_rank', 'normalize', 'progress'],
                  {'order': 2, 'previous_value': None, 'op_hod': None, 'threshold': 1e-12, 'max_rank': 50, 'normalize': 1, 'progress': True}, args, kwargs)
        c = core.ctx()
        order = v['order'] + (v['order'] % 2)
        tags = ['normalize=%s' % v['normalize'], 'order=%d' % order, 'previous_given' if v['previous_value'] is not None else 'startup']
        if not small(v['operator']):
            return
        N = int(v['number_of_steps'])
        if not traj_ok(c, self.api, res, N + 1, v['initial_value'], tags):
            return
        if v['threshold'] > 1e-10 or v['max_rank'] < max(max_ranks(v['operator'].row_dims, [1] * v['operator'].order)):
            return
        A = opm(v['operator'])
        n = A.shape[0]
        h = float(v['step_size'])
        H = hod_series(A, h, order)
        if v['op_hod'] is not None:
            # a precomputed series operator was handed in: the two-step recurrence is x_{k+1} = x_{k-1} + op_hod x_k with THAT
            # operator (value at call entry); the start-up half step is still formed from `operator`
            snaps = [s for s in st['snaps'] if s.obj is v['op_hod']]
            H = mat(snaps[0].dense()) if snaps else opm(v['op_hod'])
            tags = tags + ['op_hod_given']
        x0 = vec(res[0])
        nz = v['normalize']
        if v['previous_value'] is None:
            Hf = hod_series(A, h / 2, order)
            prev = (np.eye(n) - 0.5 * h * A) @ x0
            prev = x0 - Hf @ prev
        else:
            snaps = [s for s in st['snaps'] if s.obj is v['previous_value']]
            prev = mat(snaps[0].dense()).reshape(-1) if snaps else vec(v['previous_value'])
        if nz > 0:
            prev = prev / lib_norm(prev, nz)
        for k in range(N):
            pk = prev if k == 0 else vec(res[k - 1])
            y = pk + H @ vec(res[k])
            # the two-step recurrence subtracts: where x_{k-1} and op_hod x_k nearly cancel, rounding and the relative cut (1e-12 of the
            # un-cancelled terms) are amplified by kappa = (|x_{k-1}| + |op_hod x_k|) / |x_{k-1} + op_hod x_k| in the result
            kappa = (float(np.linalg.norm(pk)) + float(np.linalg.norm(H @ vec(res[k])))) / max(float(np.linalg.norm(y)), 1e-300)
            if nz > 0:
                y = y / lib_norm(y, nz)
                check_unit_norm(c, self.api, res[k + 1], nz, tags, k)
            tol_k = 1e-8 * max(1.0, kappa / 10.0)
            got_k = vec(res[k + 1])
            if v['threshold'] > 0 and got_k.shape == y.shape and float(np.linalg.norm(got_k - y)) > tol_k * max(float(np.linalg.norm(y)), 1e-300):
                # "without effective truncation": a relative cut is applied by the library's LEFT sweep on cores that are not in canonical form,
                # where the discarded local singular values are not the tensor's - even a cut of 1e-14 can remove 1e-7 of the tensor (seen on an
                # over-parameterised previous value at order 6).  Whether the cut was effective is observed: the same call with threshold 0.
                if self._same_call_without_cut_matches(v, k, y, tol_k):
                    c.skip('hod_negligible_threshold_was_effective')
                    c.events['hod_negligible_threshold_was_effective'] += 1
                    return
            cmp_state(c, self.api, 'equals_dense_recurrence', res[k + 1], y, tags + (['first_step'] if k == 0 else []), {'step': k, 'h': h, 'dims': list(v['operator'].row_dims), 'cancellation': kappa},
                      tol=tol_k)
        c.sig(self.api, list(v['operator'].row_dims), N, order, nz, v['previous_value'] is not None, bool(np.iscomplexobj(A)))


def _same_call_without_cut_matches(self, v, k, y, tol):
    try:
        ode = importlib.import_module('scikit_tt.solvers.ode')
        with probe.oracle():
            kw = {'order': v['order'], 'previous_value': v['previous_value'], 'op_hod': v['op_hod'], 'threshold': 0.0, 'max_rank': v['max_rank'], 'normalize': v['normalize'], 'progress': False}
            r0 = ode.hod(v['operator'], v['initial_value'], v['step_size'], v['number_of_steps'], **kw)
        # the reference for step k is built from the library's own earlier states, so compare state k+1 of the two runs where the earlier ones agree
        g0 = vec(r0[k + 1])
        return g0.shape == y.shape and float(np.linalg.norm(g0 - y)) <= 10 * tol * max(float(np.linalg.norm(y)), 1e-300)
    except Exception:
        return False


Hod._same_call_without_cut_matches = _same_call_without_cut_matches


class Errors(ApiImmut):
    freeze = True  # the oracle sees the arguments as they were at call entry; arrays / lists rewritten by the call are reported
    input_prop = 'C09'
    def __init__(self, name, kind):
        ApiImmut.__init__(self, 'ode.' + name)
        self.kind = kind

    def post(self, st, res, args, kwargs):
        ApiImmut.post(self, st, res, args, kwargs)
        v = parse(['operator', 'solution', 'step_sizes'], {}, args, kwargs)
        c = core.ctx()
        if not small(v['operator']) or not all(_is_tt(x) and tt_consistent(x)[0] for x in v['solution']):
            return
        A = opm(v['operator'])
        n = A.shape[0]
        sol = [vec(x) for x in v['solution']]
        hs = [float(x) for x in v['step_sizes']]  # (as doubles: see Splitting)
        want = []
        for k in range(len(sol) - 1):
            h = hs[k]
            if self.kind == 'expl':
                want.append(np.linalg.norm(sol[k + 1] - (np.eye(n) + h * A) @ sol[k]) / np.linalg.norm(sol[k]))
            elif self.kind == 'impl':
                want.append(np.linalg.norm((np.eye(n) - h * A) @ sol[k + 1] - sol[k]) / np.linalg.norm(sol[k]))
            else:
                r = (np.eye(n) + 0.5 * h * A) @ sol[k]
                want.append(np.linalg.norm((np.eye(n) - 0.5 * h * A) @ sol[k + 1] - r) / np.linalg.norm(r))
        good = len(res) == len(want) and all(abs(a - b) <= 1e-7 * max(1.0, abs(b)) + 1e-9 for a, b in zip(res, want))
        c.check(self.api, 'equals_relative_defect', good, ['varying_steps'] if len(set(hs)) > 1 else [], {'got': list(res), 'want': [float(w) for w in want]}, prop=P)
        c.sig(self.api, list(v['operator'].row_dims), len(hs), len(set(hs)) > 1)


class Adaptive(ApiImmut):
    freeze = True  # the oracle sees the arguments as they were at call entry; arrays / lists rewritten by the call are reported
    input_prop = 'C09'
    def __init__(self):
        ApiImmut.__init__(self, 'ode.adaptive_step_size')

    def post(self, st, res, args, kwargs):
        ApiImmut.post(self, st, res, args, kwargs)
        c = core.ctx()
        v = parse(['operator', 'initial_value', 'initial_guess', 'time_end'], {}, args[:4], {k: w for k, w in kwargs.items() if k in ('time_end',)})
        try:
            sol, ts = res
        except Exception:
            c.check(self.api, 'returns_pair', False, prop=P)
            return
        te = v.get('time_end')
        c.check(self.api, 'one_state_per_time_point', len(sol) == len(ts), [], {'states': len(sol), 'times': len(ts)}, prop=P)
        inc = all(ts[k + 1] > ts[k] for k in range(len(ts) - 1))
        c.check(self.api, 'time_points_strictly_increasing', inc, [], {'times': [float(t) for t in ts][:20]}, prop=P)
        c.check(self.api, 'time_points_not_beyond_end', ts[0] == 0 and (te is None or all(t <= te * (1 + 1e-12) for t in ts)), [], {'last': float(ts[-1]), 'time_end': te}, prop=P)
        c.check(self.api, 'initial_state_heads_trajectory', sol[0] is v['initial_value'], [], prop=P)
        c.events['adaptive_accepted_steps'] += len(ts) - 1
        c.sig(self.api, list(v['operator'].row_dims), len(ts))


def install():
    global ode
    ode = importlib.import_module('scikit_tt.solvers.ode')
    if getattr(ode, '__vt_c09__', False):
        return ode
    probe.install(ode, 'explicit_euler', ExplicitEuler())
    probe.install(ode, 'implicit_euler', ImplicitScheme('implicit_euler', 1.0))
    probe.install(ode, 'trapezoidal_rule', ImplicitScheme('trapezoidal_rule', 0.5))
    probe.install(ode, 'hod', Hod())
    probe.install(ode, 'errors_expl_euler', Errors('errors_expl_euler', 'expl'))
    probe.install(ode, 'errors_impl_euler', Errors('errors_impl_euler', 'impl'))
    probe.install(ode, 'errors_trapezoidal', Errors('errors_trapezoidal', 'trap'))
    probe.install(ode, 'adaptive_step_size', Adaptive())
    ode.__vt_c09__ = True
    return ode


# ================================================================================ C10: splitting integrators ==

W1 = 1.0 / (2.0 - 2.0 ** (1.0 / 3.0))          # Yoshida (1990), triple-jump coefficients
W0 = -(2.0 ** (1.0 / 3.0)) / (2.0 - 2.0 ** (1.0 / 3.0))
# Kahan & Li (1997), symmetric 17-stage composition of order 8 (a_1..a_9; stages a_1..a_8,a_9,a_8..a_1)
KL = [0.13020248308889008087881763, 0.56116298177510838456196441, -0.38947496264484728640807860, 0.15884190655515560089621075,
      -0.39590389413323757733623154, 0.18453964097831570709183254, 0.25837438768632204729397911, 0.29501172360931029887096624,
      -0.60550853383003451169892108]


def _as_list(X, d):
    return list(X) if isinstance(X, list) else [X] * d


def slim_dense(S, L, I, M, d):
    """dense even/odd generators of the nearest-neighbour operator given by its components"""
    Sl, Ll, Ml = _as_list(S, d), _as_list(L, d), _as_list(M, d)
    dims = [Sl[i].shape[0] for i in range(d)]
    n = int(np.prod(dims))

    def embed(op, i, width):
        left = int(np.prod(dims[:i]))
        right = int(np.prod(dims[i + width:]))
        return np.kron(np.kron(np.eye(left), op), np.eye(right))
    cplx = any(np.iscomplexobj(x) for x in Sl + Ll + Ml)
    A = [np.zeros((n, n), dtype=complex if cplx else float) for _ in range(2)]
    for i in range(d - 1):
        Li = Ll[i] if Ll[i].ndim == 3 else Ll[i][:, :, None]
        Mi = Ml[i + 1] if Ml[i + 1].ndim == 3 else Ml[i + 1][None, :, :]
        K = np.kron(Sl[i], np.eye(dims[i + 1]))
        for k in range(Li.shape[2]):
            K = K + np.kron(Li[:, :, k], Mi[k])
        A[i % 2] = A[i % 2] + embed(K, i, 2)
    A[(d - 1) % 2] = A[(d - 1) % 2] + embed(Sl[d - 1], d - 1, 1)
    return A[0], A[1], dims


def step_matrix(scheme, Ae, Ao, h):
    import scipy.linalg as sla
    with probe.oracle():
        def strang(c):
            E = sla.expm(0.5 * c * h * Ae)
            return E @ sla.expm(c * h * Ao) @ E
        if scheme == 'lie':
            return sla.expm(h * Ao) @ sla.expm(h * Ae)
        if scheme == 'strang':
            return strang(1.0)
        if scheme == 'yoshida':
            return strang(W1) @ strang(W0) @ strang(W1)
        if scheme == 'kahan_li':
            seq = KL[:8] + [KL[8]] + KL[:8][::-1]
            Phi = np.eye(Ae.shape[0])
            for a in seq:
                Phi = strang(a) @ Phi
            return Phi
    raise ValueError(scheme)


class Splitting(ApiImmut):
    freeze = True  # the oracle sees the arguments as they were at call entry; arrays / lists rewritten by the call are reported
    input_prop = 'C10'
    def __init__(self, scheme):
        ApiImmut.__init__(self, 'ode.%s_splitting' % scheme)
        self.scheme = scheme

    def post(self, st, res, args, kwargs):
        ApiImmut.post(self, st, res, args, kwargs)
        names = ['S', 'L', 'I', 'M', 'initial_value', 'step_size', 'number_of_steps', 'threshold', 'max_rank', 'normalize', 'K', 'tmp_rank']
        v = parse(names, {'threshold': 1e-12, 'max_rank': 50, 'normalize': 1 if self.scheme == 'lie' else 0, 'K': None, 'tmp_rank': 0}, args, kwargs)
        c = core.ctx()
        P10 = 'C10'
        x0 = v['initial_value']
        d = x0.order
        N = int(v['number_of_steps'])
        tags = ['scheme=' + self.scheme, 'normalize=%s' % v['normalize'], 'site_dependent' if isinstance(v['S'], list) else 'homogeneous']
        good = isinstance(res, list) and all(_is_tt(x) and tt_consistent(x)[0] for x in res)
        c.check(self.api, 'returns_list_of_tt', good, tags, prop=P10)
        if not good:
            return
        c.check(self.api, 'one_state_per_step_plus_initial', len(res) == N + 1, tags, {'len': len(res), 'steps': N}, prop=P10)
        c.check(self.api, 'initial_state_heads_trajectory', res[0] is x0, tags, prop=P10)
        if len(res) != N + 1 or int(np.prod(x0.row_dims)) > 512 or d < 2:
            return
        Ae, Ao, dims = slim_dense(v['S'], v['L'], v['I'], v['M'], d)
        if dims != list(x0.row_dims):
            return
        mr = max(max_ranks(dims, [1] * d))
        if v['threshold'] > 1e-10 or v['max_rank'] < mr or (v['tmp_rank'] not in (0, None) and v['tmp_rank'] < mr):
            # with an effective truncation the values are not determined by the statement, the normalisation is: "enabling
            # normalisation returns unit-norm states" holds for what is returned, i.e. after whatever was cut off
            if v['normalize'] > 0:
                for k in range(N):
                    check_unit_norm_p(c, self.api, res[k + 1], v['normalize'], tags + ['truncation_effective'], k, P10)
            c.skip('splitting_truncation_effective')
            return
        h = float(v['step_size'])  # (the value that was passed, as a double: products of Python floats with np.float32 / np.float16 scalars
        # would otherwise be rounded to that precision inside the reference)
        Phi = step_matrix(self.scheme, Ae, Ao, h)
        A = Ae + Ao
        skew = float(np.max(np.abs(A + A.conj().T))) <= 1e-12 * max(float(np.max(np.abs(A))), 1e-300) and \
            float(np.max(np.abs(Ae + Ae.conj().T))) <= 1e-12 * max(float(np.max(np.abs(A))), 1e-300)
        nz = v['normalize']
        for k in range(N):
            xk = vec(res[k])
            y = Phi @ xk
            if nz > 0:
                y = y / lib_norm(y, nz)
                check_unit_norm_p(c, self.api, res[k + 1], nz, tags, k, P10)
            got = vec(res[k + 1])
            sc = max(float(np.linalg.norm(y)), 1e-300)
            err = float(np.linalg.norm(got - y)) / sc
            c.check(self.api, 'equals_composed_local_propagators', err <= 1e-8, tags + ['order_parity=%d' % (d % 2)], {'step': k, 'h': h, 'dims': dims, 'rel_err': err}, prop=P10)
            if skew and nz == 0:
                n0, n1 = float(np.linalg.norm(xk)), float(np.linalg.norm(got))
                c.check(self.api, 'norm_conserved_for_skew_hermitian_generator', abs(n1 - n0) <= 1e-9 * max(n0, 1e-300), tags, {'step': k, 'before': n0, 'after': n1}, prop=P10)
        c.sig(self.api, dims, isinstance(v['S'], list), N, nz, bool(np.iscomplexobj(A)), skew, v['K'] is not None)


def check_unit_norm_p(c, api, state, normalize, tags, k, prop):
    y = vec(state)
    if normalize == 2:
        c.check(api, 'unit_2_norm', abs(np.linalg.norm(y) - 1) <= 1e-9, tags, {'step': k, 'norm': float(np.linalg.norm(y))}, prop=prop)
    elif normalize == 1:
        if np.iscomplexobj(y) or np.any(y < -1e-12 * np.max(np.abs(y))):
            c.skip('norm1_on_data_with_negative_entries')
            return
        c.check(api, 'unit_1_norm', abs(np.sum(np.abs(y)) - 1) <= 1e-9, tags, {'step': k, 'norm': float(np.sum(np.abs(y)))}, prop=prop)


def install_splitting():
    global ode
    ode = importlib.import_module('scikit_tt.solvers.ode')
    if getattr(ode, '__vt_c10__', False):
        return ode
    for sch in ('lie', 'strang', 'yoshida', 'kahan_li'):
        probe.install(ode, sch + '_splitting', Splitting(sch))
    ode.__vt_c10__ = True
    return ode


# ================================================================================ C11: TDVP and Krylov ==========

TDVP = None  # state of the outermost TDVP call in flight: {'H': dense operator, 'trace': [...], 'name': ...}


def _gram_right_err(cr):
    r1 = cr.shape[0]
    V = cr.reshape(r1, -1)
    return float(np.max(np.abs(V @ V.conj().T - np.eye(r1))))


class TdvpUpdate(probe.Contract):
    """M7 event source: norm and energy of the live iterate after every micro-step"""

    def __init__(self, name):
        self.api = 'ode.' + name

    def post(self, st, res, args, kwargs):
        if TDVP is None:
            return
        sol = args[2]
        if not tt_consistent(sol)[0]:
            TDVP['trace'].append({'i': args[0], 'dir': args[-1], 'consistent': False})
            return
        x = vec(sol)
        H = TDVP['H']
        TDVP['trace'].append({'i': args[0], 'dir': args[-1], 'consistent': True, 'norm': float(np.linalg.norm(x)), 'energy': float(np.real(np.vdot(x, H @ x))),
                              'ranks': list(sol.ranks)})


class Tdvp(ApiImmut):
    freeze = True  # the oracle sees the arguments as they were at call entry; arrays / lists rewritten by the call are reported
    input_prop = 'C11'
    def __init__(self, name):
        ApiImmut.__init__(self, 'ode.' + name)
        self.name = name

    def _v(self, args, kwargs):
        if self.name == 'tdvp1site':
            return parse(['operator', 'initial_value', 'step_size', 'number_of_steps', 'normalize'], {'normalize': 0, 'threshold': 0, 'max_rank': np.inf}, args, kwargs)
        return parse(['operator', 'initial_value', 'step_size', 'number_of_steps', 'threshold', 'max_rank', 'normalize'], {'threshold': 1e-12, 'max_rank': 50, 'normalize': 0}, args, kwargs)

    def pre(self, args, kwargs):
        global TDVP
        from . import monitors_sle
        st = ApiImmut.pre(self, args, kwargs)
        v = self._v(args, kwargs)
        st['outer'] = TDVP is None
        if st['outer'] and small(v['operator']):
            TDVP = {'H': opm(v['operator']), 'trace': [], 'name': self.name}
            monitors_sle.CURRENT_PROP = 'C11'
        return st

    def _end(self, st):
        global TDVP
        from . import monitors_sle
        tr = None
        if st is not None and st.get('outer'):
            tr = TDVP
            TDVP = None
            monitors_sle.CURRENT_PROP = None
        return tr

    def exc(self, st, e, args, kwargs):
        self._end(st)
        ApiImmut.exc(self, st, e, args, kwargs)

    def post(self, st, res, args, kwargs):
        tr = self._end(st)
        ApiImmut.post(self, st, res, args, kwargs)
        c = core.ctx()
        P11 = 'C11'
        v = self._v(args, kwargs)
        op, x0 = v['operator'], v['initial_value']
        N = int(v['number_of_steps'])
        h = float(v['step_size'])
        tags = ['scheme=' + self.name, 'normalize=%s' % v['normalize']]
        good = isinstance(res, list) and all(_is_tt(x) and tt_consistent(x)[0] for x in res)
        c.check(self.api, 'returns_list_of_consistent_tt', good, tags, prop=P11)
        if not good:
            return
        c.check(self.api, 'one_state_per_step_plus_initial', len(res) == N + 1, tags, {'len': len(res), 'steps': N}, prop=P11)
        c.check(self.api, 'initial_state_heads_trajectory', res[0] is x0, tags, prop=P11)
        if len(res) != N + 1 or tr is None:
            return
        H = tr['H']
        herm = float(np.max(np.abs(H - H.conj().T))) <= 1e-12 * max(float(np.max(np.abs(H))), 1e-300)
        gauge = all(_gram_right_err(cr) <= 1e-10 for cr in x0.cores[1:])
        if not herm or not gauge:
            c.skip('tdvp_operator_not_hermitian' if not herm else 'tdvp_initial_state_not_right_orthonormal')
            return
        cplx = bool(np.iscomplexobj(H))
        tags2 = tags + (['complex'] if cplx else []) + ['order=%d' % op.order if op.order <= 2 else 'order>=3']
        nH = max(float(np.linalg.norm(H, 2)), 1e-300)
        # conservation (one-site scheme: at every rank, at every micro-step and for every returned state)
        if self.name == 'tdvp1site' and v['normalize'] == 0:
            v0 = vec(x0)
            n0, e0 = float(np.linalg.norm(v0)), float(np.real(np.vdot(v0, H @ v0)))
            worst_n = max([abs(ev['norm'] - n0) for ev in tr['trace'] if ev.get('consistent')] + [0.0])
            worst_e = max([abs(ev['energy'] - e0) for ev in tr['trace'] if ev.get('consistent')] + [0.0])
            c.check(self.api, 'iterate_consistent_between_micro_steps', all(ev.get('consistent') for ev in tr['trace']), tags2, prop=P11)
            c.check(self.api, 'norm_conserved_at_every_micro_step', worst_n <= 1e-9 * max(n0, 1e-300), tags2, {'worst_dev': worst_n, 'norm0': n0, 'micro_steps': len(tr['trace']), 'ranks': list(x0.ranks)}, prop=P11)
            c.check(self.api, 'energy_conserved_at_every_micro_step', worst_e <= 1e-9 * nH * n0 ** 2, tags2, {'worst_dev': worst_e, 'energy0': e0, 'micro_steps': len(tr['trace']), 'ranks': list(x0.ranks)}, prop=P11)
            d = op.order
            want = (list(range(d)) + list(range(d - 1, -1, -1))) * N
            c.check(self.api, 'sweep_order', [ev['i'] for ev in tr['trace']] == want, tags2, {'got': [ev['i'] for ev in tr['trace']][:40]}, prop=P11)
            for k in range(1, len(res)):
                xv = vec(res[k])
                c.check(self.api, 'norm_conserved', abs(np.linalg.norm(xv) - n0) <= 1e-9 * n0, tags2, {'step': k}, prop=P11)
                c.check(self.api, 'energy_conserved', abs(np.real(np.vdot(xv, H @ xv)) - e0) <= 1e-9 * nH * n0 ** 2, tags2, {'step': k}, prop=P11)
            c.events['tdvp_micro_steps_traced'] += len(tr['trace'])
        # exactness on representable dynamics
        truncating = self.name != 'tdvp1site' and (v['threshold'] > 1e-10 or v['max_rank'] < max(max_ranks(x0.row_dims, [1] * x0.order)))
        if is_maximal(x0) and not truncating:
            import scipy.linalg as sla
            with probe.oracle():
                U = sla.expm(-1j * h * H)
            for k in range(N):
                y = U @ vec(res[k])
                if v['normalize'] > 0:
                    y = y / lib_norm(y, v['normalize'])
                got = vec(res[k + 1])
                err = float(np.linalg.norm(got - y)) / max(float(np.linalg.norm(y)), 1e-300)
                c.check(self.api, 'exact_at_maximal_ranks', err <= 1e-8, tags2, {'step': k, 'h': h, 'rel_err': err, 'dims': list(op.row_dims), 'ranks': list(x0.ranks)}, prop=P11)
        if v['normalize'] == 2:
            for k in range(1, len(res)):
                c.check(self.api, 'unit_2_norm', abs(np.linalg.norm(vec(res[k])) - 1) <= 1e-9, tags2, {'step': k}, prop=P11)
        c.sig(self.api, list(op.row_dims), list(x0.ranks), N, cplx, is_maximal(x0), v['normalize'])


class Krylov(ApiImmut):
    freeze = True  # the oracle sees the arguments as they were at call entry; arrays / lists rewritten by the call are reported
    input_prop = 'C11'
    def __init__(self):
        ApiImmut.__init__(self, 'ode.krylov')

    def post(self, st, res, args, kwargs):
        ApiImmut.post(self, st, res, args, kwargs)
        v = parse(['operator', 'initial_value', 'dimension', 'step_size', 'threshold', 'max_rank', 'normalize'], {'threshold': 1e-12, 'max_rank': 50, 'normalize': 0}, args, kwargs)
        c = core.ctx()
        P11 = 'C11'
        op, x0 = v['operator'], v['initial_value']
        if not (_is_tt(res) and tt_consistent(res)[0]) or not small(op):
            return
        H = opm(op)
        n = H.shape[0]
        herm = float(np.max(np.abs(H - H.conj().T))) <= 1e-12 * max(float(np.max(np.abs(H))), 1e-300)
        xv = vec(x0)
        nx = float(np.linalg.norm(xv))
        if not herm or nx <= 1e-200:
            c.skip('krylov_precondition_not_met')
            return
        if int(v['dimension']) < n or v['threshold'] > 1e-10 or v['max_rank'] < max(max_ranks(x0.row_dims, [1] * x0.order)):
            c.skip('krylov_space_not_full')
            return
        import scipy.linalg as sla
        with probe.oracle():
            y = sla.expm(-1j * float(v['step_size']) * H) @ xv
        if v['normalize'] > 0:
            y = y / lib_norm(y, v['normalize'])
        got = vec(res)
        # (relative to the norm of the exact state: the equation is linear, an initial state of any norm is admissible; cores of very
        # different scale cost digits in every TT sum, in proportion to the imbalance)
        from .dense import core_scale
        err = float(np.linalg.norm(got - y)) / max(float(np.linalg.norm(y)), 1e-300)
        imb = max(1.0, core_scale(x0.cores) / nx, nx, 1.0 / nx)
        tags = (['complex'] if np.iscomplexobj(H) else []) + (['unit_norm'] if abs(nx - 1) <= 1e-10 else ['other_norm'])
        c.check(self.api, 'exact_with_full_krylov_space', err <= 1e-9 * max(1.0, 1e-4 * imb), tags, {'err': err, 'n': n, 'h': v['step_size'], 'dims': list(op.row_dims)}, prop=P11)
        c.events['krylov_err_log10_sum_x10'] += int(round(10 * np.log10(max(err, 1e-17))))
        c.events['krylov_n'] += 1
        c.sig(self.api, list(op.row_dims), bool(np.iscomplexobj(H)), int(v['dimension']))


def install_tdvp():
    global ode
    ode = importlib.import_module('scikit_tt.solvers.ode')
    if getattr(ode, '__vt_c11__', False):
        return ode
    for name in ('tdvp', 'tdvp1site', 'tdvp2site'):
        probe.install(ode, name, Tdvp(name))
    probe.install(ode, 'krylov', Krylov())
    probe.install(ode, '__update_core_tdvp', TdvpUpdate('__update_core_tdvp'))
    probe.install(ode, '__update_core_tdvp2site', TdvpUpdate('__update_core_tdvp2site'))
    ode.__vt_c11__ = True
    return ode
