"""Contracts for C12: SLIM generators vs a state-enumeration construction of the master-equation generator; Ulam
operators vs a direct histogram of the transitions."""
import importlib
import itertools

import numpy as np

from . import core, probe
from .contracts_tt import _is_tt, check_returned
from .dense import dense_cores, mat, tt_consistent

P = 'C12'


def generator_by_enumeration(state_space, single, two, cyclic):
    """G[target, source] += rate, G[source, source] -= rate for every elementary reaction and every global state in
    which it can fire (C-order global index)"""
    # everything in Python integers / floats: the tables may come as narrow NumPy integers (int8 state numbers), and the index
    # arithmetic below must not be done in their type
    state_space = [int(m) for m in state_space]
    single = [[(int(r[0]), int(r[1]), float(r[2])) for r in cell] for cell in single]
    two = [[(int(r[0]), int(r[1]), int(r[2]), int(r[3]), float(r[4])) for r in bond] for bond in two]
    d = len(state_space)
    n = int(np.prod(state_space))
    G = np.zeros((n, n))
    strides = [int(np.prod(state_space[i + 1:])) for i in range(d)]

    def idx(s):
        return sum(a * b for a, b in zip(s, strides))
    for s in itertools.product(*[range(m) for m in state_space]):
        src = idx(s)
        for i in range(d):
            for (r, p, rate) in single[i]:
                if r == p:
                    continue  # a null reaction contributes exactly nothing (gain and loss hit the same entry): never added and subtracted here
                if s[i] == r:
                    t = list(s)
                    t[i] = p
                    G[idx(t), src] += rate
                    G[src, src] -= rate
        bonds = [(i, i + 1, two[i]) for i in range(d - 1)]
        if cyclic:
            bonds.append((d - 1, 0, two[d - 1]))
        for (a, b, reacs) in bonds:
            for (r1, p1, r2, p2, rate) in reacs:
                if r1 == p1 and r2 == p2:
                    continue
                if s[a] == r1 and s[b] == r2:
                    t = list(s)
                    t[a] = p1
                    t[b] = p2
                    G[idx(t), src] += rate
                    G[src, src] -= rate
    return G


def admissible(state_space, single, two):
    d = len(state_space)
    for i in range(d):
        for (r, p, rate) in single[i]:
            if not (0 <= r < state_space[i] and 0 <= p < state_space[i] and rate > 0):
                return False
    for k, reacs in enumerate(two):
        a, b = (k, k + 1) if k < d - 1 else (d - 1, 0)
        for (r1, p1, r2, p2, rate) in reacs:
            if not (0 <= r1 < state_space[a] and 0 <= p1 < state_space[a] and 0 <= r2 < state_space[b] and 0 <= p2 < state_space[b] and rate > 0):
                return False
    return True


class Slim(probe.Contract):
    freeze = True  # the oracle sees the arguments as they were at call entry; arrays / lists rewritten by the call are reported
    input_prop = P
    def __init__(self, name):
        self.api = 'slim.' + name
        self.name = name

    def post(self, st, res, args, kwargs):
        c = core.ctx()
        check_returned(self.api, res)
        names = ['state_space', 'single_cell_reactions', 'two_cell_reactions'] + (['cyclic', 'threshold'] if self.name == 'slim_mme_hom' else ['threshold'])
        v = {'threshold': 0, 'cyclic': True}
        for k, a in enumerate(args):
            v[names[k]] = a
        v.update(kwargs)
        ss = list(v['state_space'])
        d = len(ss)
        if self.name == 'slim_mme_hom':
            single = [v['single_cell_reactions']] * d
            cyc = bool(v['cyclic'])
            two = [v['two_cell_reactions']] * (d if cyc else d - 1)
        else:
            single, two = v['single_cell_reactions'], v['two_cell_reactions']
            cyc = len(two) == d
        if d < 2 or int(np.prod(ss)) > 512 or not admissible(ss, single, two) or v['threshold'] > 1e-10:
            return
        if not (_is_tt(res) and tt_consistent(res)[0]):
            return
        G = generator_by_enumeration(ss, single, two, cyc)
        got = mat(dense_cores(res.cores))
        sc = max(float(np.max(np.abs(G))), 1e-300)
        ranks = list(res.ranks)
        tags = ['cyclic' if cyc else 'open', 'equal_bond_ranks' if len(set(ranks[1:-1])) <= 1 else 'unequal_bond_ranks', 'equal_cells' if len(set(ss)) == 1 else 'unequal_cells']
        ok = got.shape == G.shape and float(np.max(np.abs(got - G))) <= 1e-10 * sc
        spread_ok = v['threshold'] == 0 or all(min(float(r[4]) for r in bond) > 1e-9 * max(float(r[4]) for r in bond) for bond in two if len(bond))
        if ok and spread_ok:  # (with a non-zero relative cut, rates more than 1e9 apart within one bond make that cut effective)
            # off-diagonal entries are sums of non-negative rates (no cancellation): they are reproduced entry by entry to relative
            # accuracy, however small the rates of one bond or cell are compared with the rest of the network
            offm = ~np.eye(G.shape[0], dtype=bool)
            ok = bool(np.all(np.abs(got - G)[offm] <= 1e-8 * np.abs(G)[offm] + 1e-13 * sc))
        c.check(self.api, 'equals_master_equation_generator', ok, tags, {'state_space': ss, 'ranks': ranks, 'max_err': float(np.max(np.abs(got - G))) if got.shape == G.shape else None}, prop=P)
        if got.shape == G.shape:
            c.check(self.api, 'column_sums_vanish', float(np.max(np.abs(got.sum(axis=0)))) <= 1e-10 * sc, tags, {'state_space': ss}, prop=P)
            off = got - np.diag(np.diag(got))
            c.check(self.api, 'off_diagonals_non_negative', float(np.min(off)) >= -1e-12 * sc, tags, {'min': float(np.min(off))}, prop=P)
        c.sig(self.api, ss, cyc, [len(x) for x in single], [len(x) for x in two], ranks, v['threshold'] != 0)


class Ulam(probe.Contract):
    freeze = True  # the oracle sees the arguments as they were at call entry; arrays / lists rewritten by the call are reported
    input_prop = P
    def __init__(self, name, dim):
        self.api = 'ulam.' + name
        self.dim = dim

    def pre(self, args, kwargs):
        tr = args[0] if args else kwargs.get('transitions')
        return {'tr': np.array(tr, copy=True)}

    def post(self, st, res, args, kwargs):
        c = core.ctx()
        check_returned(self.api, res)
        names = ['transitions', 'states', 'simulations']
        v = {}
        for k, a in enumerate(args):
            v[names[k]] = a
        v.update(kwargs)
        tr = st['tr']
        c.check(self.api, 'ndarray_argument_unchanged', np.array_equal(tr, v['transitions']), prop='C06')
        states = list(v['states'])
        sim = v['simulations']
        k = self.dim
        if not (_is_tt(res) and tt_consistent(res)[0]) or int(np.prod(states)) > 1400:
            return
        n = int(np.prod(states))
        H = np.zeros((n, n))
        strides = [int(np.prod(states[i + 1:])) for i in range(k)]
        for j in range(tr.shape[1]):
            src = sum((int(tr[i, j]) - 1) * strides[i] for i in range(k))
            dst = sum((int(tr[k + i, j]) - 1) * strides[i] for i in range(k))
            H[dst, src] += 1.0
        want = H / sim
        got = mat(dense_cores(res.cores))
        ok = got.shape == want.shape and float(np.max(np.abs(got - want))) <= 1e-12
        c.check(self.api, 'entries_are_transition_frequencies', ok, [], {'states': states, 'transitions': int(tr.shape[1]), 'simulations': sim}, prop=P)
        if got.shape == want.shape:
            full = np.where(H.sum(axis=0) == sim)[0]
            c.check(self.api, 'fully_sampled_columns_sum_to_one', bool(np.all(np.abs(got.sum(axis=0)[full] - 1) <= 1e-12)), [], {'fully_sampled': int(len(full))}, prop=P)
        c.sig(self.api, states, int(tr.shape[1]), int(len(np.where(H.sum(axis=0) == 0)[0]) > 0))


def install():
    slim = importlib.import_module('scikit_tt.slim')
    ulam = importlib.import_module('scikit_tt.data_driven.ulam')
    importlib.import_module('scikit_tt.models')
    if getattr(slim, '__vt_armed__', False):
        return slim, ulam
    probe.install(slim, 'slim_mme', Slim('slim_mme'), replace_everywhere=True)
    probe.install(slim, 'slim_mme_hom', Slim('slim_mme_hom'), replace_everywhere=True)
    probe.install(ulam, 'ulam_2d', Ulam('ulam_2d', 2), replace_everywhere=True)
    probe.install(ulam, 'ulam_3d', Ulam('ulam_3d', 3), replace_everywhere=True)
    slim.__vt_armed__ = True
    return slim, ulam
