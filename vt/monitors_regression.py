"""C16: contracts on MANDy (coordinate-/function-major, kernel-based) against numpy.linalg.pinv / lstsq on the dense
transformed data matrix, and on ARR (M7 residual trace over micro-steps, ranks kept, guess unchanged)."""
import importlib

import numpy as np

from . import core, probe
from .contracts_api import ApiImmut
from .contracts_tt import _is_tt, check_returned
from .dense import dense_cores, tt_consistent
from .monitors_transform import product_tensor, parse, pristine

P = 'C16'
ARR_TRACE = None
LAST_NOISE = 0.0  # largest rounding-noise estimate of the micro problems of the last arr call
LAST_UNDECIDED = False  # the last arr call had a cut-off below the rounding level on a rank-deficient micro problem


def unfold_spectra(T):
    """singular values of every unfolding of a dense tensor (modes..., snapshots)"""
    out = []
    sh = T.shape
    for k in range(1, T.ndim):
        out.append(np.linalg.svd(T.reshape(int(np.prod(sh[:k])), -1), compute_uv=False))
    return out


# relative width of the band around a cut that must be free of singular values of the matrices the MANDy sweeps really decompose
# (mandy_spectra): it only has to cover rounding, 5 per cent is generous.  (Other users of cut_decidable keep a factor of 1000 on
# either side around the unfolding spectra.)
BAND = 0.05


def mandy_factors(name, x, phi, add_one=True):
    """mode-wise evaluation matrices of the MANDy transformed data tensor (coordinate major / function major)"""
    x = np.asarray(x)
    d, m = x.shape
    if name == 'mandy_cm':
        return [np.array([[float(f(x[i, j])) for j in range(m)] for f in phi]) for i in range(d)]
    factors = []
    for f in phi:
        rows = [[float(f(x[i, j])) for j in range(m)] for i in range(d)]
        if add_one:
            rows = [[1.0] * m] + rows
        factors.append(np.array(rows))
    return factors


def mandy_spectra(factors):
    """singular values the sweeps behind MANDy actually cut: the left sweep orthonormalises core by core a train whose right part is not
    orthonormal, so at mode k it sees the matrix of the products of the first k modes at the m snapshots (partial transformed data
    matrices Psi_k, N_k x m); the last one is the transformed data matrix itself"""
    out = []
    m = factors[0].shape[1]
    part = np.ones((1, m))
    for f in factors:
        part = np.einsum('aj,bj->abj', part, f).reshape(-1, m)
        out.append(np.linalg.svd(part, compute_uv=False))
    return out


def cut_decidable(spectra, thr, band=None):
    """the relative cut must fall into a clear gap of every unfolding spectrum"""
    for s in spectra:
        if s.size == 0 or s[0] <= 0:
            return False
        rel = s / s[0]
        if thr == 0:
            if rel[-1] < 1e-8:
                return False
        elif band is not None and np.any((rel > thr * (1 - band)) & (rel < thr * (1 + band))):
            return False
        elif band is None and np.any((rel > thr * 1e-3) & (rel < thr * 1e3)):
            return False
    return True


class Mandy(ApiImmut):
    freeze = True  # the oracle sees the arguments as they were at call entry; arrays / lists rewritten by the call are reported
    input_prop = P
    def __init__(self, name):
        ApiImmut.__init__(self, 'regression.' + name)
        self.name = name

    def post(self, st, res, args, kwargs):
        ApiImmut.post(self, st, res, args, kwargs)
        c = core.ctx()
        if self.name == 'mandy_cm':
            v = parse(['x', 'y', 'phi', 'threshold'], {'threshold': 0.0}, args, kwargs)
        else:
            v = parse(['x', 'y', 'phi', 'threshold', 'add_one'], {'threshold': 0.0, 'add_one': True}, args, kwargs)
        x, y, phi, thr = np.asarray(v['x']), np.asarray(v['y']), v['phi'], v['threshold']
        d, m = x.shape
        if not (_is_tt(res) and tt_consistent(res)[0]):
            c.check(self.api, 'returns_consistent_tt', False, prop=P)
            return
        if self.name == 'mandy_cm':
            factors = [np.array([[float(f(x[i, j])) for j in range(m)] for f in pristine(phi)]) for i in range(d)]
        else:
            factors = []
            for f in phi:
                rows = [[float(f(x[i, j])) for j in range(m)] for i in range(d)]
                if v['add_one']:
                    rows = [[1.0] * m] + rows
                factors.append(np.array(rows))
        N = int(np.prod([f.shape[0] for f in factors]))
        if N * m > 2 ** 16:
            return
        T = product_tensor(factors)
        A = T.reshape(N, m)
        spectra = mandy_spectra(factors)
        if not cut_decidable(spectra, thr, band=BAND):
            c.skip('mandy_cut_not_in_spectral_gap')
            return
        s = spectra[-1]
        rcond = 1e-12 if thr == 0 else thr
        want = (y @ np.linalg.pinv(A, rcond=rcond)).T  # N x d
        got = dense_cores(res.cores)
        got = got.reshape(N, -1) if got.size == want.size else got
        kept = s[s / s[0] > rcond]
        cond = float(s[0] / kept[-1])
        sc = max(float(np.max(np.abs(want))), 1e-300)
        err = float(np.max(np.abs(got - want))) / sc if got.shape == want.shape else np.inf
        tags = ['underdetermined' if m < N else 'overdetermined', 'thr' if thr else 'nothr', 'rank_deficient' if len(kept) < min(N, m) else 'full_rank']
        c.check(self.api, 'equals_y_times_pseudoinverse', err <= max(1e-8, 1e-12 * cond ** 2) and err <= 1e-3, tags, {'rel_err': err, 'N': N, 'm': m, 'd': d, 'cond': cond, 'threshold': thr}, prop=P)
        c.check(self.api, 'dims', list(res.row_dims) == [f.shape[0] for f in factors] + [y.shape[0]], tags, {'row_dims': list(res.row_dims)}, prop=P)
        c.sig(self.api, [f.shape[0] for f in factors], m, tags)


class MandyKb(ApiImmut):
    freeze = True  # the oracle sees the arguments as they were at call entry; arrays / lists rewritten by the call are reported
    input_prop = P
    def __init__(self):
        ApiImmut.__init__(self, 'regression.mandy_kb')

    def post(self, st, res, args, kwargs):
        ApiImmut.post(self, st, res, args, kwargs)
        c = core.ctx()
        v = parse(['x', 'y', 'basis_list'], {}, args, kwargs)
        x, y, bl = np.asarray(v['x']), np.asarray(v['y']), v['basis_list']
        m = x.shape[1]
        N = int(np.prod([len(f) for f in bl]))
        if N * m > 2 ** 16:
            return
        with probe.oracle():
            factors = [np.array([[float(f(x[:, j])) for j in range(m)] for f in fl]) for fl in pristine(bl)]
        A = product_tensor(factors).reshape(N, m)
        G = A.T @ A
        cg = float(np.linalg.cond(G))
        # The library solves G z = y with `solve` if cond(G) < 1/eps and otherwise with lstsq/gelss, whose default cut-off is
        # machine epsilon.  Both decisions are taken on *its own* Gram matrix, whose exactly-zero singular values are computed as
        # eps * s_0 * O(1): whether such a value is kept is rounding luck (observed: 1 in ~3000 singular cases keeps one and
        # returns coefficients of size 1e15).  The clause is decided only where every singular-value ratio of the library's Gram
        # matrix is either clearly kept (> 1e-10) or clearly dropped (< eps/2); everything else is counted as skipped.
        try:
            with probe.oracle():
                import scikit_tt.data_driven.transform as _tdt
                sl = np.linalg.svd(np.asarray(_tdt.gram(x, x, bl), dtype=float), compute_uv=False)
            ratios = sl / sl[0] if sl[0] > 0 else np.zeros_like(sl)
        except Exception:
            c.skip('mandy_kb_gram_condition_in_undecidable_band')
            return
        eps = np.finfo(float).eps
        if not sl[0] > 0:
            c.skip('mandy_kb_gram_matrix_zero')
            return
        if not np.all(np.isfinite(ratios)) or np.any((ratios >= 0.5 * eps) & (ratios <= 1e-10)):
            c.skip('mandy_kb_gram_condition_in_undecidable_band')
            return
        exact_def = bool(np.any(ratios < 0.5 * eps))
        kept = sl[ratios > 1e-10]
        cond_eff = float(sl[0] / kept[-1])  # condition of the Gram matrix restricted to its numerical range
        # singular values of A are the square roots: Gram ratios > 1e-10 / < eps/2  <=>  ratios of A > 1e-5 / < 1.1e-8
        fitted_want = y @ np.linalg.pinv(A, rcond=1e-6) @ A
        fitted_got = np.asarray(res) @ G
        sc = max(float(np.max(np.abs(y))), 1e-300)
        err = float(np.max(np.abs(fitted_got - fitted_want))) / sc if fitted_got.shape == fitted_want.shape else np.inf
        tags = ['gram_rank_deficient' if exact_def else 'gram_regular']
        if not exact_def and fitted_got.shape == fitted_want.shape:
            # A backward-stable solve of z G = y reproduces y up to eps * |z| * |G| (NOT eps * cond(G) * |y|: for right-hand sides in the
            # well-conditioned directions - noise-free data generated from a model in the span of the basis - the coefficients are small
            # and the fitted values accurate to many more digits than cond(G) suggests; forming an explicit inverse loses exactly those).
            zr = np.linalg.lstsq(G.T, np.atleast_2d(y).T, rcond=1e-13)[0].T
            bs = 2.220446049250313e-16 * float(np.linalg.norm(zr, 2)) * float(np.linalg.norm(G, 2)) / max(float(np.linalg.norm(np.atleast_2d(y), 2)), 1e-300)
            r_ = err / max(bs, 1e-300)
            c.events['mandy_kb_accuracy_in_backward_stable_units:1e%+d' % int(np.floor(np.log10(max(r_, 1e-3))))] += 1
            c.check(self.api, 'fitted_values_as_accurate_as_a_backward_stable_solve', err <= KB_K * bs + 1e-13, tags,
                    {'rel_err': err, 'backward_stable_unit': bs, 'cond_gram': cg, 'N': N, 'm': m}, prop=P)
        c.check(self.api, 'reproduces_fitted_values_of_pseudoinverse_solution', err <= 1e-8 + 1e-12 * cond_eff, tags, {'rel_err': err, 'cond_gram': cg, 'cond_effective': cond_eff, 'N': N, 'm': m}, prop=P)
        c.sig(self.api, [len(f) for f in bl], m, tags)


KB_K = 1e3  # (calibrated on the unchanged tree: histogram mandy_kb_accuracy_in_backward_stable_units in the evidence)


class ArrUpdate(probe.Contract):
    api = 'regression.__arr_update_core'

    def pre(self, args, kwargs):
        if ARR_TRACE is None:
            return None
        i, M, rhs = args[0], np.array(args[1], copy=True), np.array(args[2], copy=True)
        try:
            sol = np.linalg.lstsq(M.T, rhs, rcond=None)[0]
            r = float(np.linalg.norm(M.T @ sol - rhs))
            noise = 1e-14 * float(np.linalg.norm(M)) * float(np.linalg.norm(sol))
            sv = np.linalg.svd(M, compute_uv=False)
            smin_rel = float(sv[-1] / sv[0]) if sv.size and sv[0] > 0 else 0.0
        except Exception:
            r, noise, smin_rel = None, 0.0, 0.0
        ARR_TRACE.append({'i': i, 'dir': args[-1], 'res': r, 'rhs_id': hash(rhs.tobytes()), 'noise': noise, 'rhs_norm': float(np.linalg.norm(rhs)), 'smin_rel': smin_rel})
        return None


class Arr(ApiImmut):
    freeze = True  # the oracle sees the arguments as they were at call entry; arrays / lists rewritten by the call are reported
    input_prop = P
    def __init__(self):
        ApiImmut.__init__(self, 'regression.arr')

    def pre(self, args, kwargs):
        global ARR_TRACE
        st = ApiImmut.pre(self, args, kwargs)
        st['outer'] = ARR_TRACE is None
        if st['outer']:
            ARR_TRACE = []
        return st

    def exc(self, st, e, args, kwargs):
        global ARR_TRACE
        if st is not None and st.get('outer'):
            ARR_TRACE = None
        ApiImmut.exc(self, st, e, args, kwargs)

    def post(self, st, res, args, kwargs):
        global ARR_TRACE
        trace = None
        if st is not None and st.get('outer'):
            trace, ARR_TRACE = ARR_TRACE, None
        ApiImmut.post(self, st, res, args, kwargs)
        c = core.ctx()
        v = parse(['x_data', 'y_data', 'basis_list', 'initial_guess', 'repeats', 'rcond', 'string', 'progress'], {'repeats': 1, 'rcond': 1e-2}, args, kwargs)
        x, y, bl, g = np.asarray(v['x_data']), np.asarray(v['y_data']), v['basis_list'], v['initial_guess']
        good = isinstance(res, list) and len(res) == y.shape[0] and all(_is_tt(t) and tt_consistent(t)[0] for t in res)
        c.check(self.api, 'one_coefficient_tensor_per_output_row', good, [], prop=P)
        if not good:
            return
        guesses = g if isinstance(g, list) else [g] * len(res)
        tags = ['list_guess' if isinstance(g, list) else 'tt_guess']
        p = len(bl)
        n = [len(f) for f in bl]
        feasible = all(all(gs.ranks[k + 1] <= gs.ranks[k] * n[k] and gs.ranks[k] <= n[k] * gs.ranks[k + 1] for k in range(p)) for gs in guesses)
        if feasible and not isinstance(g, list):
            c.check(self.api, 'ranks_of_guess_kept', all(list(t.ranks) == list(gs.ranks) for t, gs in zip(res, guesses)), tags,
                    {'guess': [list(gs.ranks) for gs in guesses][:2], 'result': [list(t.ranks) for t in res][:2]}, prop=P)
        global LAST_NOISE, LAST_UNDECIDED
        LAST_NOISE = max([ev['noise'] for ev in (trace or [])] + [0.0])
        LAST_UNDECIDED = False
        if v['rcond'] > 1e-10 or trace is None:
            return
        if v['rcond'] < 1e-15 and any(ev['smin_rel'] < 1e-8 for ev in trace):
            # a cut-off below the rounding level (exactly 0 in particular) inverts numerically vanishing singular values of a micro
            # problem that has no full column rank: the pseudoinverse is not determined there; decided only on full-rank micro problems
            LAST_UNDECIDED = True
            c.skip('arr_cutoff_below_rounding_level_on_rank_deficient_micro_problem')
            return
        # M7: residuals of successive micro-steps non-increasing (per output row)
        seg = {}
        for ev in trace:
            seg.setdefault(ev['rhs_id'], []).append(ev)
        worst = 0.0
        steps = 0
        for evs in seg.values():
            rs = [ev['res'] for ev in evs]
            if any(r is None for r in rs):
                continue
            for k in range(1, len(rs)):
                # the optimal residual of a nearly rank-deficient micro problem is only determined up to eps*||M||*||x||
                slack = 1e-7 * evs[k]['rhs_norm'] + 100 * max(evs[k]['noise'], evs[k - 1]['noise'])
                worst = max(worst, rs[k] - rs[k - 1] * (1 + 1e-8) - slack)
            steps += len(rs)
        c.check(self.api, 'micro_step_residuals_non_increasing', worst <= 0.0, tags, {'worst_increase': worst, 'micro_steps': steps, 'first_trace': [ev['res'] for ev in list(seg.values())[0]][:16] if seg else []}, prop=P)
        c.events['arr_micro_steps_traced'] += steps
        c.sig(self.api, n, x.shape[1], y.shape[0], int(v['repeats']), tags)


def install():
    reg = importlib.import_module('scikit_tt.data_driven.regression')
    if getattr(reg, '__vt_c16__', False):
        return reg
    probe.install(reg, 'mandy_cm', Mandy('mandy_cm'))
    probe.install(reg, 'mandy_fm', Mandy('mandy_fm'))
    probe.install(reg, 'mandy_kb', MandyKb())
    probe.install(reg, 'arr', Arr())
    probe.install(reg, '__arr_update_core', ArrUpdate())
    reg.__vt_c16__ = True
    return reg
