"""Workload generators: shapes biased to the classes the unit tests never touch (order 1-2, size-1 modes,
rank-1 bonds, over-parameterised ranks, complex data), operators with prescribed structure, data sets."""
import itertools

import numpy as np


def TTcls():
    from scikit_tt.tensor_train import TT
    return TT


def max_ranks(row_dims, col_dims):
    d = len(row_dims)
    dims = [int(r) * int(c) for r, c in zip(row_dims, col_dims)]
    out = [1]
    for k in range(1, d):
        out.append(int(min(np.prod(dims[:k], dtype=np.int64), np.prod(dims[k:], dtype=np.int64))))
    out.append(1)
    return out


def feasible_ranks(row_dims, col_dims, want):
    """largest admissible rank vector <= want with r_k <= r_{k-1}*dim_{k-1} and r_k <= r_{k+1}*dim_k (no
    over-parameterisation)"""
    d = len(row_dims)
    dims = [int(r) * int(c) for r, c in zip(row_dims, col_dims)]
    r = [1] + [int(x) for x in want[1:-1]] + [1]
    mr = max_ranks(row_dims, col_dims)
    r = [min(a, b) for a, b in zip(r, mr)]
    for _ in range(d):
        for k in range(1, d):
            r[k] = min(r[k], r[k - 1] * dims[k - 1], r[k + 1] * dims[k])
    return r


def randn(rng, shape, cplx=False):
    x = rng.standard_normal(shape)
    if cplx:
        x = x + 1j * rng.standard_normal(shape)
    return x


def rand_cores(rng, row_dims, col_dims, ranks, cplx=False, kind='gauss'):
    """cplx: False / True / 'mixed' (each core independently real or complex; at least one complex)"""
    cores = []
    mixed = cplx == 'mixed'
    flags = [bool(rng.integers(0, 2)) for _ in row_dims] if mixed else None
    if mixed and not any(flags):
        flags[int(rng.integers(0, len(flags)))] = True
    for i in range(len(row_dims)):
        if mixed:
            cplx = flags[i]
        shp = (ranks[i], row_dims[i], col_dims[i], ranks[i + 1])
        if cplx == 'int':  # integer dtype (a train assembled from counting / indicator arrays)
            c = rng.integers(-3, 4, size=shp)
            if not np.any(c):
                c.flat[0] = 1
            cores.append(c)
            continue
        if kind == 'gauss':
            c = randn(rng, shp, cplx)
        elif kind == 'nonneg':
            c = rng.random(shp)
        elif kind == 'int':
            c = rng.integers(-3, 4, size=shp).astype(float)
            if cplx:
                c = c + 1j * rng.integers(-3, 4, size=shp)
        else:
            raise ValueError(kind)
        cores.append(c)
    if LAYOUT and rng.random() < LAYOUT:
        cores = [relayout(rng, c, readonly=False) for c in cores]
    return cores


STRUCT = 0.0  # probability of exactly representable / degenerate data in rand_tt (opt-in per driver)
LAYOUT = 0.0  # probability that the cores of a generated train get unusual memory layouts (see relayout)
ALIAS = 0.0  # probability that equal-shaped cores of a generated train are one and the same ndarray object
PROV = 0.0  # probability that a generated operand is passed through `provenance` (set by the property drivers)


def rand_tt(rng, row_dims, col_dims, ranks, cplx=False, kind='gauss', scale=None):
    cores = rand_cores(rng, row_dims, col_dims, ranks, cplx, kind)
    if scale is not None:
        apply_scale(cores, rng, scale)
    if STRUCT and rng.random() < STRUCT:
        structure(rng, cores)
    if LAYOUT and rng.random() < LAYOUT:
        cores = [relayout(rng, c) for c in cores]
    if ALIAS and len(cores) > 1 and rng.random() < ALIAS:
        # one ndarray object at several positions of the train (e.g. a rank-one tensor x (x) x (x) x written as TT([x, x, x]), or a
        # homogeneous chain): perfectly legal, and the only way a sweep that writes through a core buffer harms the train itself
        for i in range(len(cores)):
            for j in range(i):
                if cores[j].shape == cores[i].shape and cores[j].dtype == cores[i].dtype:
                    cores[i] = cores[j]
                    break
    t = TTcls()(cores)
    if PROV and rng.random() < PROV:
        t = provenance(rng, t)
    return t


def structure(rng, cores):
    """exactly representable / degenerate data (in place): the zero tensor (all cores zero, or a single vanishing core), unit-entry
    cores (a canonical unit tensor), all-ones cores, entries from {-1, 0, 1} (exact cancellations, exact ties)"""
    k = int(rng.integers(0, 5))
    if k == 0:
        for c in cores:
            c[...] = 0
    elif k == 1:
        cores[int(rng.integers(0, len(cores)))][...] = 0
    elif k == 2:
        for c in cores:
            c[...] = 0
            c[tuple(int(rng.integers(0, n)) for n in c.shape)] = 1
    elif k == 3:
        for c in cores:
            c[...] = 1
    else:
        for c in cores:
            c[...] = rng.integers(-1, 2, size=c.shape)
    return cores


def provenance(rng, t, steps=None, reorder=False):
    """Operands with a history: the object is passed through value-preserving library operations (in-place sweeps, copies,
    re-construction with a negligible threshold ...) before it is used, so that anything an object carries along besides its
    cores (markers, cached quantities, shared buffers) is exercised.  The contracts snapshot the operand they are given, so
    no assumption about these operations enters a verdict.  Runs as oracle code (not monitored)."""
    from . import probe
    TT = TTcls()
    n = int(rng.integers(1, 3)) if steps is None else steps
    with probe.oracle():
        for _ in range(n):
            k = int(rng.integers(0, 17))
            try:
                if k >= 15:
                    # a canonical train whose owner then assigns NEW values to one core (a solver's micro step, a user editing a core):
                    # the train is far from canonical afterwards and no method was told about it
                    (t.ortho_left if k == 15 else t.ortho_right)()
                    j = int(rng.integers(0, t.order))
                    cj = t.cores[j]
                    new = rng.standard_normal(cj.shape) * (float(np.max(np.abs(cj))) or 1.0)
                    t.cores[j] = new.astype(cj.dtype) if cj.dtype.kind in 'fc' else new
                elif k >= 13:
                    # nearly canonical: an orthonormalised train whose cores were rescaled column by column (row by row) by factors
                    # 1 + O(1e-6..1e-9) afterwards - orthogonal but not normalised to working precision (a canonical train stored in
                    # single precision and read back, or normalised with an approximate norm)
                    q = float(10 ** rng.uniform(-9, -5.3))
                    if k == 13:
                        t.ortho_left()
                        for j in range(t.order - 1):
                            t.cores[j] = t.cores[j] * (1.0 + q * rng.standard_normal(t.cores[j].shape[3]))[None, None, None, :]
                    else:
                        t.ortho_right()
                        for j in range(1, t.order):
                            t.cores[j] = t.cores[j] * (1.0 + q * rng.standard_normal(t.cores[j].shape[0]))[:, None, None, None]
                elif k == 9:  # a core replaced by its owner (what the solvers do all the time): no method is told about it
                    j = int(rng.integers(0, t.order))
                    t.cores[j] = t.cores[j] * float(rng.uniform(0.5, 2.0))
                elif k == 10:
                    t.conj(overwrite=True)
                elif k == 11 and reorder and t.ranks[0] == 1 and t.ranks[-1] == 1:
                    t.rank_transpose(overwrite=True)  # (reverses the mode order: the contracts snapshot whatever they are given)
                elif k == 12 and int(np.prod(t.row_dims, dtype=np.int64)) * int(np.prod(t.col_dims, dtype=np.int64)) <= 4096 and t.ranks[0] == 1 and t.ranks[-1] == 1:
                    x = t.full()
                    if np.any(x):
                        t = TT(x, threshold=1e-13)  # TT-SVD output (left-orthonormal cores; without the cut the rounding-level singular
                        # values of a low-rank tensor come back as extra ranks: a numerically rank-deficient, over-parameterised train)
                if k == 0:
                    t = t.copy()
                elif k == 1:
                    t.ortho()
                elif k == 2:
                    t.ortho_left()
                    t.ortho_right()
                elif k == 3:
                    t.ortho_right()
                    t.ortho_left()
                elif k == 4 and t.order > 1:
                    a = int(rng.integers(0, t.order - 1))
                    b = int(rng.integers(a, t.order - 1))
                    t.ortho_left(start_index=a, end_index=b)
                elif k == 5 and t.order > 1:
                    a = int(rng.integers(1, t.order))
                    b = int(rng.integers(1, a + 1))
                    t.ortho_right(start_index=a, end_index=b)
                elif k == 6:
                    t = TT([c.copy() for c in t.cores], threshold=1e-15)
                elif k == 7:
                    t = t.transpose().transpose()
                elif k == 8:
                    t = 1.0 * t
            except Exception:
                pass
    return t


def rand_scale(rng, p_unit=0.6, span=8):
    """global magnitude of a test tensor: mostly 1, otherwise 10^U(-span, span) (nothing in the properties depends on scale)"""
    return 1.0 if rng.random() < p_unit else float(10 ** rng.uniform(-span, span))


def apply_scale(cores, rng, scale):
    """multiply one (randomly chosen) core by `scale`"""
    k = int(rng.integers(0, len(cores)))
    cores[k] = cores[k] * scale
    return cores


def rand_ranks(rng, d, rmax, p_one=0.3, boundary=(1, 1)):
    r = [boundary[0]]
    for _ in range(d - 1):
        r.append(1 if rng.random() < p_one else int(rng.integers(1, rmax + 1)))
    r.append(boundary[1])
    return r


def rand_dims(rng, d, mmax, p_one=0.25):
    return [1 if rng.random() < p_one else int(rng.integers(1, mmax + 1)) for _ in range(d)]


def rand_shape(rng, dmax=5, mmax=3, rmax=4, kind=None, dmin=1, size_cap=4096):
    """(row_dims, col_dims, ranks); kind in {None, 'operator', 'vector', 'rowvector', 'square'}"""
    while True:
        d = int(rng.integers(dmin, dmax + 1))
        if rng.random() < 0.35:
            d = int(rng.integers(dmin, min(2, dmax) + 1)) if dmin <= 2 else d
        k = kind if kind is not None else ['operator', 'vector', 'rowvector', 'square'][int(rng.integers(0, 4))]
        rows = rand_dims(rng, d, mmax)
        if k == 'vector':
            cols = [1] * d
        elif k == 'rowvector':
            cols, rows = rows, [1] * d
        elif k == 'square':
            cols = list(rows)
        else:
            cols = rand_dims(rng, d, mmax)
        if np.prod(rows, dtype=np.int64) * np.prod(cols, dtype=np.int64) <= size_cap:
            return rows, cols, rand_ranks(rng, d, rmax)


def rand_scalar(rng):
    k = int(rng.integers(0, 7))
    if k == 0:
        return int(rng.integers(-3, 4))
    if k == 1:
        return float(rng.standard_normal())
    if k == 2:
        return complex(rng.standard_normal(), rng.standard_normal())
    if k == 3:
        return 0
    if k == 4:
        return -1.0
    if k == 5:
        return 2.5
    return 1j


def low_rank_tensor(rng, row_dims, col_dims, ranks, noise=0.0, cplx=False, decay=None):
    """dense tensor of TT ranks `ranks` (+ noise), optionally with geometrically decaying bond weights"""
    from .dense import dense_cores
    cores = rand_cores(rng, row_dims, col_dims, ranks, cplx)
    if decay is not None:
        for i in range(len(cores) - 1):
            w = decay ** np.arange(ranks[i + 1])
            cores[i] = cores[i] * w[None, None, None, :]
    x = dense_cores(cores)
    if noise:
        x = x + noise * np.linalg.norm(x.reshape(-1)) / np.sqrt(x.size) * randn(rng, x.shape, cplx)
    return x


def rank_deficient_cores(rng, row_dims, col_dims, ranks, cplx=False):
    """cores with duplicated slices, i.e. unfoldings of deficient rank"""
    cores = rand_cores(rng, row_dims, col_dims, ranks, cplx)
    for i, c in enumerate(cores):
        if c.shape[3] > 1 and rng.random() < 0.7:
            c[:, :, :, -1] = c[:, :, :, 0]
        if c.shape[0] > 1 and rng.random() < 0.5:
            c[-1] = 2.0 * c[0]
    return cores


# ---- operators --------------------------------------------------------------------------------------

def hermitian_tt(rng, dims, rank, cplx=False, hpd=False, eps=0.5):
    """Hermitian TT operator  sum_k  X_k (x) ... (Hermitian local factors)  [+ B^H B + eps I if hpd]"""
    TT = TTcls()
    d = len(dims)
    total = None
    for k in range(rank):
        cores = []
        for i in range(d):
            m = randn(rng, (dims[i], dims[i]), cplx)
            m = (m + m.conj().T) / 2
            cores.append(m.reshape(1, dims[i], dims[i], 1))
        term = TT(cores)
        total = term if total is None else total + term
    if hpd:
        B = total
        total = B.transpose(conjugate=True) @ B
        import scikit_tt.tensor_train as tt
        if not isinstance(total, TT):  # every mode has size 1: the product collapsed to a scalar
            cores = [np.ones((1, 1, 1, 1)) for _ in dims]
            cores[0] = cores[0] * (float(np.real(total)) + eps)
            return TT(cores)
        total = total + eps * tt.eye(dims)
    return total


def dense_of(t):
    from .dense import dense
    return dense(t)


def all_index_tuples(dims):
    return itertools.product(*[range(int(x)) for x in dims])


def right_orthonormal_cores(cores):
    """harness-side (NumPy QR) right-orthonormalisation of a vector-type core list; the first core carries the norm and is
    normalised to 1 (independent of the library's ortho_right)"""
    cores = [np.array(c, copy=True) for c in cores]
    for i in range(len(cores) - 1, 0, -1):
        r1, m, n, r2 = cores[i].shape
        q, r = np.linalg.qr(cores[i].reshape(r1, m * n * r2).T)  # (mnr2 x k), (k x r1)
        k = q.shape[1]
        cores[i] = q.T.reshape(k, m, n, r2)
        cores[i - 1] = np.tensordot(cores[i - 1], r.T, axes=([3], [0]))
    cores[0] = cores[0] / np.linalg.norm(cores[0].reshape(-1))
    return cores


def rand_cplx(rng):
    """dtype class of a test train: real, complex, or per-core mixed"""
    if rng.random() < 0.08:
        return 'int'
    return [False, True, 'mixed'][int(rng.integers(0, 3))]


def alias_equal_shapes(cores):
    """make equal-shaped (and equal-typed) cores one and the same ndarray object"""
    for i in range(len(cores)):
        for j in range(i):
            if cores[j].shape == cores[i].shape and cores[j].dtype == cores[i].dtype:
                cores[i] = cores[j]
                break
    return cores


def clone_cores(cores):
    """deep copy of a core list that keeps its aliasing pattern (one object at several positions stays one object)"""
    seen = {}
    out = []
    for c in cores:
        if id(c) not in seen:
            seen[id(c)] = np.array(c, copy=True)
        out.append(seen[id(c)])
    return out


def data_matrix(rng, shape, lim=1.5):
    """snapshot data: mostly scattered floats; sometimes lattice data (multiples of 1/2 incl. exactly 0, where odd basis functions
    vanish while their derivatives do not, and snapshots coincide), sometimes scattered data with a few exact zeros"""
    u = rng.random()
    x = rng.uniform(-lim, lim, size=shape)
    if u < 0.04:
        return rng.integers(-2, 3, size=shape)  # integer-typed data (grid indices, counts) stored as int64
    if u < 0.12:
        x = rng.integers(-2, 3, size=shape) * 0.5
    elif u < 0.2:
        x = np.where(rng.random(shape) < 0.3, 0.0, x)
    elif u < 0.27 and isinstance(shape, (tuple, list)) and len(shape) == 2 and shape[1] > 1:
        # repeated and mirrored snapshots (a trajectory revisiting a state, data symmetrised by hand): exactly dependent columns of the
        # transformed data, exact ties between even / odd basis functions
        for _ in range(int(rng.integers(1, 3))):
            j, k = (int(v) for v in rng.choice(shape[1], size=2, replace=False))
            x[:, j] = x[:, k] if rng.random() < 0.6 else -x[:, k]
    x = np.asarray(x, dtype=float)
    if rng.random() < 0.2:
        x = relayout_array(rng, x)
    return x


def relayout_array(rng, x):
    """a data array in another memory layout: Fortran order (e.g. loaded from MATLAB / transposed), every second column of a
    larger buffer, a read-only array (memory-mapped data), a float32 copy is NOT included (it would change the values)"""
    x = np.asarray(x)
    k = int(rng.integers(0, 4))
    if k == 0:
        return np.asfortranarray(x)
    if k == 1 and x.ndim >= 1:
        big = np.zeros(x.shape[:-1] + (2 * x.shape[-1],), dtype=x.dtype)
        big[..., ::2] = x
        return big[..., ::2]
    if k == 2 and x.ndim == 2:
        return np.ascontiguousarray(x.T).T  # transposed view of a C-ordered array
    out = np.array(x, copy=True)
    out.setflags(write=False)
    return out


def relayout(rng, c, readonly=True):
    """the same values in another memory layout: Fortran order, a strided view into a larger buffer, a view with a negative
    stride, or a read-only array - nothing in the properties depends on how a core is laid out in memory"""
    c = np.asarray(c)
    k = 0 if rng.random() < 0.4 else int(rng.integers(0, 5 if readonly else 4))  # (Fortran order is what lets LAPACK work in place)
    if k == 0:
        return np.asfortranarray(c)
    if k == 1:  # every second element of a larger buffer along the last axis
        big = np.zeros(c.shape[:-1] + (2 * c.shape[-1],), dtype=c.dtype)
        big[..., ::2] = c
        return big[..., ::2]
    if k == 2:  # reversed view of a reversed copy (negative stride along the first mode axis)
        return np.ascontiguousarray(c[:, ::-1])[:, ::-1]
    if k == 3:  # interior block of a larger buffer
        big = np.zeros(tuple(n + 2 for n in c.shape), dtype=c.dtype)
        big[1:-1, 1:-1, 1:-1, 1:-1] = c
        return big[1:-1, 1:-1, 1:-1, 1:-1]
    out = np.array(c, copy=True)
    out.setflags(write=False)
    return out


INT_TYPES = [int, np.int64, np.int32, np.int16, np.int8, np.uint8, np.uint16, np.uint32, np.uint64, np.intp]
FLOAT_TYPES = [float, np.float64, np.float32]


def as_int(rng, v, p=0.35):
    """the integer v as a Python int or (with probability p) as some NumPy integer scalar type that can hold it"""
    if rng.random() >= p:
        return int(v)
    for _ in range(8):
        t = INT_TYPES[int(rng.integers(0, len(INT_TYPES)))]
        if t is int:
            return int(v)
        info = np.iinfo(t)
        if info.min <= v <= info.max:
            return t(v)
    return int(v)


def as_float(rng, v, p=0.3, allow32=False):
    if rng.random() >= p:
        return float(v)
    t = FLOAT_TYPES[int(rng.integers(0, 3 if allow32 else 2))]
    return t(v)


def relayout_tt(rng, t):
    """the same train with its cores in other memory layouts (Fortran order, strided / negative-stride / interior views)"""
    return TTcls()([relayout(rng, c, readonly=False) for c in t.cores])
