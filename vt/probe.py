"""Instrumentation layer: wrappers on real attributes of the library (contracts, hooks), the
LAPACK-boundary observer (M5), the live-object registry and declared-target stack, failpoints (M8)
and sys.monitoring coverage of anchored functions (M9).

Wrappers never raise into library code (the library has bare `except:` clauses): oracle errors are
recorded as monitor errors (=> run inconclusive), violations are recorded in the context."""
import functools
import os
import sys
import traceback
import weakref

import numpy as np

from . import core


class _State(object):
    armed = False
    busy = 0  # >0 while oracle code runs: wrapped calls pass straight through
    depth = 0  # nesting depth of monitored calls
    targets = []  # stack of objects legitimately mutated in place right now
    apis = []  # stack of the monitored functions that are executing right now (outermost first)
    live = None  # id -> weakref of user-visible TT objects
    failpoint_svd = False  # M8: raise LinAlgError before default-driver SVD
    failpoint_hits = 0
    installed = []


S = _State()
S.live = {}


def require_guard():
    if os.environ.get('SCIKIT_TT_VERIF') != '1':
        raise SystemExit('SCIKIT_TT_VERIF=1 is required to arm the monitors')


class oracle(object):
    """context manager: code inside is oracle code, wrappers are bypassed"""

    def __enter__(self):
        S.busy += 1

    def __exit__(self, *a):
        S.busy -= 1
        return False


def monitor_error(api, where):
    c = core.ctx()
    if c is None:
        return
    c.events['monitor_error'] += 1
    key = 'monitor_error:%s:%s' % (api, where)
    c.events[key] += 1
    if c.events[key] <= 2:
        c.samples.append({'monitor_error': key, 'traceback': traceback.format_exc()[-1500:], 'case': c.cur})


# ---- live registry / targets ----------------------------------------------------------------------

def register_live(obj, name=None):
    try:
        S.live[id(obj)] = (weakref.ref(obj), name)
    except TypeError:
        pass


def unregister_live(obj):
    S.live.pop(id(obj), None)


def clear_live():
    S.live.clear()


def live_objects():
    out = []
    for k, (r, name) in list(S.live.items()):
        o = r()
        if o is None:
            S.live.pop(k, None)
        else:
            out.append((o, name))
    return out


# ---- generic wrapper ------------------------------------------------------------------------------

class Contract(object):
    """pre/post/exc callbacks of one monitored function; `inplace(args, kwargs)` returns the object that the
    call is documented to mutate (or None)"""
    api = '?'

    def pre(self, args, kwargs):
        return None

    def post(self, st, res, args, kwargs):
        pass

    def exc(self, st, e, args, kwargs):
        pass

    def inplace(self, args, kwargs):
        return None


def _freeze(v, depth=0):
    """copy of an argument as it was at call entry: ndarrays and (nested) lists/tuples/dicts are copied, everything else
    (tensor trains, function objects, scalars) is kept by reference"""
    if isinstance(v, np.ndarray):
        return np.array(v, copy=True) if v.size <= 2 ** 22 else v
    if depth < 5:
        if isinstance(v, list):
            return [_freeze(w, depth + 1) for w in v]
        if isinstance(v, tuple):
            return tuple(_freeze(w, depth + 1) for w in v)
        if isinstance(v, dict):
            return {k: _freeze(w, depth + 1) for k, w in v.items()}
    return v


def _same(a, b, depth=0):
    """is live argument `a` still what its entry copy `b` says?"""
    if isinstance(b, np.ndarray):
        if not isinstance(a, np.ndarray):
            return False
        if a.shape != b.shape:
            # a list entry replaced by the same data with singleton axes added / removed (the splitting integrators normalise 2-D
            # two-site components to 3-D in the caller's list): same value, recorded as an event, not a violation
            ok = a.size == b.size and np.squeeze(a).shape == np.squeeze(b).shape and np.array_equal(np.squeeze(a), np.squeeze(b), equal_nan=(a.dtype.kind in 'fc'))
            if ok and core.ctx() is not None:
                core.ctx().events['input_array_reshaped_in_place'] += 1
            return ok
        return a.dtype == b.dtype and (a is b or np.array_equal(a, b, equal_nan=(a.dtype.kind in 'fc')))
    if isinstance(b, (list, tuple)) and depth < 5:
        return type(a) is type(b) and len(a) == len(b) and all(_same(x, y, depth + 1) for x, y in zip(a, b))
    if isinstance(b, dict) and depth < 5:
        return isinstance(a, dict) and a.keys() == b.keys() and all(_same(a[k], b[k], depth + 1) for k in b)
    if isinstance(b, float) and b != b:
        return isinstance(a, float) and a != a
    if isinstance(b, (bool, int, float, complex, str, type(None), np.generic)):
        return type(a) is type(b) and a == b
    return a is b


def _check_frozen(contract, args, kwargs, fargs, fkwargs, raised=False):
    c = core.ctx()
    prop = getattr(contract, 'input_prop', None) or getattr(contract, 'prop', None)
    for key, live, entry in [(i, a, b) for i, (a, b) in enumerate(zip(args, fargs))] + [(k, kwargs[k], fkwargs[k]) for k in kwargs]:
        if isinstance(entry, (np.ndarray, list, tuple, dict)):
            same = _same(live, entry)
            c.check(contract.api, 'input_unchanged', same, ['arg=%s' % key] + (['raised'] if raised and not same else []),
                    {'arg': key, 'at_entry': entry, 'now': live} if not same else None, prop=prop)


def install(owner, name, contract, replace_everywhere=False):
    """wrap attribute `name` of module/class `owner` with `contract`"""
    orig = owner.__dict__[name]
    if getattr(orig, '__vt_wrapped__', False):
        raise RuntimeError('%s already wrapped' % name)
    api = contract.api

    @functools.wraps(orig)
    def wrapper(*args, **kwargs):
        if S.busy or not S.armed:
            return orig(*args, **kwargs)
        st = None
        fargs, fkwargs = args, kwargs
        frozen = False
        S.busy += 1
        try:
            if getattr(contract, 'freeze', False):
                # the oracle judges the result against the arguments as they were at call entry, not as the call left them
                fargs, fkwargs = tuple(_freeze(a) for a in args), {k: _freeze(v) for k, v in kwargs.items()}
                frozen = True
            st = contract.pre(args, kwargs)
            tgt = contract.inplace(args, kwargs)
        except Exception:
            tgt = None
            monitor_error(api, 'pre')
        finally:
            S.busy -= 1
        if tgt is not None:
            S.targets.append(tgt)
        S.depth += 1
        S.apis.append(api)
        try:
            res = orig(*args, **kwargs)
        except BaseException as e:
            S.depth -= 1
            S.apis.pop()
            if tgt is not None:
                S.targets.pop()
            S.busy += 1
            try:
                if frozen:
                    _check_frozen(contract, args, kwargs, fargs, fkwargs, raised=True)
                contract.exc(st, e, fargs, fkwargs)
            except Exception:
                monitor_error(api, 'exc')
            finally:
                S.busy -= 1
            raise
        S.depth -= 1
        S.apis.pop()
        if tgt is not None:
            S.targets.pop()
        S.busy += 1
        try:
            if frozen:
                _check_frozen(contract, args, kwargs, fargs, fkwargs)
            contract.post(st, res, fargs, fkwargs)
        except Exception:
            monitor_error(api, 'post')
        finally:
            S.busy -= 1
        return res

    wrapper.__vt_wrapped__ = True
    wrapper.__vt_orig__ = orig
    setattr(owner, name, wrapper)
    S.installed.append((owner, name, orig))
    if replace_everywhere:
        for m in list(sys.modules.values()):
            if m is None or m is owner or not getattr(m, '__name__', '').startswith('scikit_tt'):
                continue
            for k, v in list(vars(m).items()):
                if v is orig:
                    setattr(m, k, wrapper)
                    S.installed.append((m, k, orig))
    return wrapper


def hook(owner, name, api, pre=None, post=None, exc=None, replace_everywhere=False):
    """light-weight variant of install() from plain functions"""
    c = Contract()
    c.api = api
    if pre is not None:
        c.pre = pre
    if post is not None:
        c.post = post
    if exc is not None:
        c.exc = exc
    return install(owner, name, c, replace_everywhere)


def arm():
    require_guard()
    S.armed = True


def disarm():
    S.armed = False


# ---- M5: LAPACK-boundary observer ("alias sanitizer") ---------------------------------------------

_OVERWRITE_ARGS = {
    'svd': [('a', 0, 'overwrite_a')],
    'qr': [('a', 0, 'overwrite_a')],
    'rq': [('a', 0, 'overwrite_a')],
    'lu_factor': [('a', 0, 'overwrite_a')],
    'lu': [('a', 0, 'overwrite_a')],
    'solve': [('a', 0, 'overwrite_a'), ('b', 1, 'overwrite_b')],
    'lstsq': [('a', 0, 'overwrite_a'), ('b', 1, 'overwrite_b')],
    'eig': [('a', 0, 'overwrite_a'), ('b', 1, 'overwrite_b')],
    'eigh': [('a', 0, 'overwrite_a'), ('b', 1, 'overwrite_b')],
    'inv': [('a', 0, 'overwrite_a')],
    'expm': [],
}


def _repo_site():
    f = sys._getframe(2)
    while f is not None:
        fn = f.f_code.co_filename
        if 'scikit_tt' in fn and os.sep + 'vt' + os.sep not in fn:
            return '%s:%s' % (os.path.basename(fn), f.f_code.co_name), f.f_lineno
        f = f.f_back
    return '?', None


def install_lapack_observer():
    import scipy.linalg as sla
    for fname, specs in _OVERWRITE_ARGS.items():
        if not hasattr(sla, fname):
            continue
        _install_one_lapack(sla, fname, specs)


def _install_one_lapack(sla, fname, specs):
    orig = getattr(sla, fname)
    if getattr(orig, '__vt_wrapped__', False):
        return

    @functools.wraps(orig)
    def observer(*args, **kwargs):
        if S.busy or not S.armed:
            return orig(*args, **kwargs)
        c = core.ctx()
        site, line = _repo_site()
        if site == '?':  # not called from the library
            return orig(*args, **kwargs)
        c.lapack[fname + '.calls'] += 1
        # M8 failpoint: default-driver SVD fails *before* touching its input
        if fname == 'svd' and S.failpoint_svd and kwargs.get('lapack_driver', 'gesdd') == 'gesdd':
            S.failpoint_hits += 1
            c.events['failpoint.svd_gesdd'] += 1
            raise np.linalg.LinAlgError('injected: SVD did not converge (failpoint)')
        watched = []
        for (pname, pos, flag) in specs:
            if kwargs.get(flag, False):
                arr = args[pos] if len(args) > pos else kwargs.get(pname)
                if isinstance(arr, np.ndarray):
                    watched.append((pname, arr, np.array(arr, copy=True)))
        if not watched:
            return orig(*args, **kwargs)
        c.lapack[fname + '.overwrite_flag'] += 1
        err = None
        try:
            res = orig(*args, **kwargs)
        except BaseException as e:
            err = e
        S.busy += 1
        try:
            for (pname, arr, before) in watched:
                c.checks['C06|lapack:no_shared_buffer_clobbered'] += 1
                if not np.array_equal(arr, before, equal_nan=True):
                    c.lapack[fname + '.really_overwritten'] += 1
                    tgt = S.targets[-1] if S.targets else None
                    victims = []
                    for (o, name) in live_objects():
                        if o is tgt or any(o is t for t in S.targets):
                            continue
                        try:
                            for i, cr in enumerate(o.cores):
                                if isinstance(cr, np.ndarray) and np.shares_memory(cr, arr):
                                    victims.append((name or type(o).__name__, i))
                        except Exception:
                            pass
                    if victims:
                        c.lapack[fname + '.overwritten_and_shared'] += 1
                        c.violation('lapack', 'no_shared_buffer_clobbered',
                                    ['site=' + site, 'routine=' + fname],
                                    {'site': site, 'line': line, 'victims': victims[:4], 'shape': list(arr.shape),
                                     'f_contiguous': bool(arr.flags.f_contiguous), 'c_contiguous': bool(arr.flags.c_contiguous)},
                                    prop='C06')
        except Exception:
            monitor_error('lapack.' + fname, 'post')
        finally:
            S.busy -= 1
        if err is not None:
            raise err
        return res

    observer.__vt_wrapped__ = True
    observer.__vt_orig__ = orig
    setattr(sla, fname, observer)
    # `import scipy as sp; sp.linalg.svd` and `from scipy import linalg` resolve through the module: covered.


# ---- M9: which anchored functions were reached ------------------------------------------------------

def install_coverage(repo_root):
    """count PY_START events of code objects defined under <repo>/scikit_tt (cheap; DISABLE not used so
    that counts are call counts)"""
    mon = getattr(sys, 'monitoring', None)
    if mon is None:
        return False
    tool = 3
    try:
        mon.use_tool_id(tool, 'vt-coverage')
    except ValueError:
        return False
    prefix = os.path.join(repo_root, 'scikit_tt') + os.sep
    c = core.ctx()

    def on_start(code, offset):
        fn = code.co_filename
        if fn.startswith(prefix):
            c.reached[os.path.basename(fn) + ':' + code.co_qualname] += 1
        else:
            return mon.DISABLE

    mon.register_callback(tool, mon.events.PY_START, on_start)
    mon.set_events(tool, mon.events.PY_START)
    return True
