"""Independent dense reference model (M1), snapshots (M4) and the representation invariant (M3).
Written against the documented core layout only: cores[i] has shape (r_i, m_i, n_i, r_{i+1});
nothing here calls TT.full / matricize / element."""
import numpy as np

MAX_DENSE = 2 ** 17


def dense_size(cores):
    n = 1
    for c in cores:
        n *= int(c.shape[1]) * int(c.shape[2])
    return n * int(cores[0].shape[0]) * int(cores[-1].shape[3])


def dense_b_cores(cores):
    """dense value with explicit boundary-rank axes: shape (r_0, m_1..m_d, n_1..n_d, r_d)"""
    d = len(cores)
    x = np.asarray(cores[0])
    for c in cores[1:]:
        x = np.tensordot(x, np.asarray(c), axes=([x.ndim - 1], [0]))
    perm = [0] + [1 + 2 * i for i in range(d)] + [2 + 2 * i for i in range(d)] + [2 * d + 1]
    return np.transpose(x, perm)


def dense_cores(cores):
    b = dense_b_cores(cores)
    if b.shape[0] != 1 or b.shape[-1] != 1:
        raise ValueError('boundary ranks are not 1')
    return b[0, ..., 0]


def too_large(t):
    try:
        return dense_size(t.cores) > MAX_DENSE
    except Exception:
        return True


def dense(t):
    return dense_cores(t.cores)


def dense_b(t):
    return dense_b_cores(t.cores)


def mat(x):
    """matricisation of a dense (m_1..m_d, n_1..n_d) array"""
    d = x.ndim // 2
    return x.reshape(int(np.prod(x.shape[:d], dtype=np.int64)), int(np.prod(x.shape[d:], dtype=np.int64)))


def vec(x):
    return x.reshape(-1)


def opmat(t):
    return mat(dense(t))


def relerr(a, b, scale=None):
    """max-norm distance relative to the scale of the operands (never divides by zero)"""
    a = np.asarray(a)
    b = np.asarray(b)
    if a.shape != b.shape:
        return np.inf
    if a.size == 0:
        return 0.0
    if not (np.all(np.isfinite(a)) and np.all(np.isfinite(b))):
        return np.inf
    s = max(float(np.max(np.abs(a))), float(np.max(np.abs(b))))
    if scale is not None:
        s = max(s, float(scale))
    if s == 0.0:
        return 0.0
    return float(np.max(np.abs(a - b))) / s


def close(a, b, tol=1e-9, scale=None):
    return relerr(a, b, scale) <= tol


# ---- M3: representation invariant -----------------------------------------------------------------

def tt_consistent(t):
    """order == len(cores); every core a 4-way ndarray; row_dims/col_dims/ranks equal the core shapes;
    neighbouring ranks agree.  Returns (ok, reason)."""
    try:
        cores = t.cores
        if not isinstance(cores, list) or len(cores) == 0:
            return False, 'cores is not a non-empty list'
        if t.order != len(cores):
            return False, 'order %r != len(cores) %d' % (t.order, len(cores))
        for i, c in enumerate(cores):
            if not isinstance(c, np.ndarray) or c.ndim != 4:
                return False, 'core %d is not a 4-way ndarray (ndim=%s)' % (i, getattr(c, 'ndim', None))
        if len(t.row_dims) != t.order or len(t.col_dims) != t.order or len(t.ranks) != t.order + 1:
            return False, 'metadata lengths %d/%d/%d for order %d' % (len(t.row_dims), len(t.col_dims), len(t.ranks), t.order)
        for i, c in enumerate(cores):
            if int(t.row_dims[i]) != c.shape[1]:
                return False, 'row_dims[%d]=%s but core has %d' % (i, t.row_dims[i], c.shape[1])
            if int(t.col_dims[i]) != c.shape[2]:
                return False, 'col_dims[%d]=%s but core has %d' % (i, t.col_dims[i], c.shape[2])
            if int(t.ranks[i]) != c.shape[0]:
                return False, 'ranks[%d]=%s but core has %d' % (i, t.ranks[i], c.shape[0])
            if int(t.ranks[i + 1]) != c.shape[3]:
                return False, 'ranks[%d]=%s but core %d has %d' % (i + 1, t.ranks[i + 1], i, c.shape[3])
        return True, ''
    except Exception as e:  # attribute missing etc.
        return False, 'exception while inspecting: %r' % (e,)


# ---- M4: snapshots ---------------------------------------------------------------------------------

class Snap(object):
    """bitwise snapshot of a TT object (cores + metadata)"""

    __slots__ = ('obj', 'cores', 'order', 'row_dims', 'col_dims', 'ranks', 'ok', 'core_list_id')

    def __init__(self, t):
        self.obj = t
        self.ok = True
        try:
            self.cores = [np.array(c, copy=True) for c in t.cores]
            self.order = t.order
            self.row_dims = list(t.row_dims)
            self.col_dims = list(t.col_dims)
            self.ranks = list(t.ranks)
            self.core_list_id = id(t.cores)
        except Exception:
            self.ok = False

    def diff(self, t=None):
        """None if `t` (default: the snapshotted object) is bitwise what it was, else a reason string"""
        t = self.obj if t is None else t
        try:
            if t.order != self.order:
                return 'order %s -> %s' % (self.order, t.order)
            if list(t.row_dims) != self.row_dims:
                return 'row_dims %s -> %s' % (self.row_dims, list(t.row_dims))
            if list(t.col_dims) != self.col_dims:
                return 'col_dims %s -> %s' % (self.col_dims, list(t.col_dims))
            if list(t.ranks) != self.ranks:
                return 'ranks %s -> %s' % (self.ranks, list(t.ranks))
            if len(t.cores) != len(self.cores):
                return 'number of cores %d -> %d' % (len(self.cores), len(t.cores))
            for i, (a, b) in enumerate(zip(self.cores, t.cores)):
                if a.shape != b.shape:
                    return 'core %d shape %s -> %s' % (i, a.shape, b.shape)
                if a.dtype != b.dtype:
                    return 'core %d dtype %s -> %s' % (i, a.dtype, b.dtype)
                if not np.array_equal(a, b, equal_nan=True):
                    return 'core %d entries changed (max |delta| %.3g)' % (i, float(np.max(np.abs(a - b))))
            return None
        except Exception as e:
            return 'exception while comparing: %r' % (e,)

    def semantic_diff(self, t=None):
        """what property C06 states: dense value and shape metadata unchanged.  Returns (bitwise_reason, semantic_reason);
        semantic_reason is None when only the gauge (core entries, not the represented tensor / metadata) changed."""
        t = self.obj if t is None else t
        d = self.diff(t)
        if d is None:
            return None, None
        try:
            ok, why = tt_consistent(t)
            if not ok:
                return d, 'object inconsistent: ' + why
            if (t.order != self.order or list(t.row_dims) != self.row_dims or list(t.col_dims) != self.col_dims or list(t.ranks) != self.ranks):
                return d, d
            a, b = dense_b_cores(self.cores), dense_b_cores(t.cores)
            if a.shape != b.shape or not close(a, b, 1e-10, scale=self.floor()):
                return d, 'dense value changed (rel. %.3g); %s' % (relerr(a, b, self.floor()), d)
            return d, None
        except Exception as e:
            return d, 'exception while comparing values: %r' % (e,)

    def dense(self):
        return dense_cores(self.cores)

    def dense_b(self):
        return dense_b_cores(self.cores)

    def too_large(self):
        return dense_size(self.cores) > MAX_DENSE

    def floor(self):
        """scale such that 1e-9 * floor is well above the rounding noise of evaluating this train"""
        return 1e-4 * core_scale(self.cores)

    def shape_sig(self):
        return shape_sig_cores(self.cores)


def core_scale(cores):
    """prod_i ||core_i||_F : upper bound of the norm of the represented tensor; rounding noise of any evaluation of
    the train is proportional to it (a train may represent a numerically zero tensor with large cores)"""
    p = 1.0
    for c in cores:
        p *= float(np.linalg.norm(np.asarray(c).reshape(-1)))
    return p


def shape_sig_cores(cores):
    """coarse shape class of a TT (used for distinct-case counting)"""
    d = len(cores)
    rows = [int(c.shape[1]) for c in cores]
    cols = [int(c.shape[2]) for c in cores]
    ranks = [int(c.shape[0]) for c in cores] + [int(cores[-1].shape[3])]
    over = False
    left = ranks[0]
    for i in range(d):
        left = left * rows[i] * cols[i]
        right = ranks[-1]
        for j in range(i + 1, d):
            right *= rows[j] * cols[j]
        if i < d - 1 and ranks[i + 1] > min(left, right):
            over = True
        left = min(left, ranks[i + 1]) if i < d - 1 else left
    return {'d': d, 'rows': sorted(set(rows)), 'cols': sorted(set(cols)), 'size1mode': any(r * c == 1 for r, c in zip(rows, cols)),
            'rank1bond': (d > 1 and any(r == 1 for r in ranks[1:-1])), 'maxrank': max(ranks), 'overparam': over,
            'complex': bool(any(np.iscomplexobj(c) for c in cores)), 'op': any(c > 1 for c in cols) and any(r > 1 for r in rows)}


def shape_sig(t):
    try:
        return shape_sig_cores(t.cores)
    except Exception:
        return {'broken': True}


def shape_tags(t):
    """mechanism tags derived from the shape of a TT (for known-finding classification)"""
    try:
        s = shape_sig_cores(t.cores)
    except Exception:
        return ['shape=broken']
    tags = ['order=%d' % s['d'] if s['d'] <= 2 else 'order>=3']
    if s['complex']:
        tags.append('complex')
    if s['rank1bond']:
        tags.append('rank1bond')
    if s['size1mode']:
        tags.append('size1mode')
    return tags
