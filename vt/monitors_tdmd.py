"""C17: contracts on tdmd_exact / tdmd_standard against SVD-based matrix DMD in NumPy on the unfolded snapshots."""
import importlib

import numpy as np

from . import core, probe
from .contracts_api import ApiImmut
from .contracts_tt import _is_tt
from .dense import dense_cores, dense_b_cores, tt_consistent
from .monitors_regression import unfold_spectra, cut_decidable
from .monitors_transform import parse

P = 'C17'


def match_multiset(a, b, tol):
    a, b = list(a), list(b)
    if len(a) != len(b):
        return False, None
    worst = 0.0
    for z in a:
        k = int(np.argmin([abs(z - w) for w in b]))
        worst = max(worst, abs(z - b[k]))
        b.pop(k)
    return worst <= tol, worst


class Tdmd(ApiImmut):
    freeze = True  # the oracle sees the arguments as they were at call entry; arrays / lists rewritten by the call are reported
    input_prop = P
    def __init__(self, name):
        ApiImmut.__init__(self, 'tdmd.' + name)
        self.name = name

    def post(self, st, res, args, kwargs):
        ApiImmut.post(self, st, res, args, kwargs)
        c = core.ctx()
        v = parse(['x', 'y', 'threshold', 'ortho_l', 'ortho_r'], {'threshold': 0.0, 'ortho_l': True, 'ortho_r': True}, args, kwargs)
        x, y, thr = v['x'], v['y'], v['threshold']
        try:
            lam, modes = res
        except Exception:
            c.check(self.api, 'returns_pair', False, prop=P)
            return
        okm, why = tt_consistent(modes) if _is_tt(modes) else (False, 'not a TT')
        c.check(self.api, 'modes_are_a_consistent_tt', okm, ['why=' + why.split(' (')[0][:40]] if not okm else [], {'why': why}, prop=P)
        if not (tt_consistent(x)[0] and tt_consistent(y)[0]) or int(np.prod(x.row_dims)) > 2 ** 16:
            return
        if not (v['ortho_l'] is True and v['ortho_r'] is True):
            # switching the sweeps off is only meaningful on input that already is in that gauge (measured)
            from .contracts_tt import _gram_err_left, _gram_err_right
            okl = v['ortho_l'] is True or all(_gram_err_left(cr) <= 1e-10 for cr in x.cores[:x.order - 2])
            okr = v['ortho_r'] is True or _gram_err_right(x.cores[-1]) <= 1e-10
            if not (okl and okr):
                c.skip('tdmd_flags_off_on_non_orthonormal_input')
                return
        m = x.row_dims[-1]
        X = dense_cores(x.cores).reshape(-1, m)
        Y = dense_cores(y.cores).reshape(-1, y.row_dims[-1])
        spectra = unfold_spectra(dense_cores(x.cores).reshape(list(x.row_dims)))
        if not cut_decidable(spectra, thr):
            c.skip('tdmd_cut_not_in_spectral_gap')
            return
        U, s, Vh = np.linalg.svd(X, full_matrices=False)
        keep = s / s[0] > (thr if thr else 1e-12)
        U, s, Vh = U[:, keep], s[keep], Vh[keep]
        At = U.conj().T @ Y @ Vh.conj().T @ np.diag(1.0 / s)
        w, W = np.linalg.eig(At)
        condW = float(np.linalg.cond(W)) if W.size else 1.0
        cond = float(s[0] / s[-1])
        if condW > 1e6 or cond > 1e8:
            c.skip('tdmd_eigenproblem_ill_conditioned')
            return
        sc = max(float(np.max(np.abs(w))) if w.size else 0.0, 1e-300)
        tol = 1e-8 * sc * max(1.0, condW) * max(1.0, cond * 1e-2)
        ok, worst = match_multiset(np.asarray(lam).reshape(-1), w, tol)
        if ok and worst is not None and np.isfinite(worst):
            # achieved accuracy in units of eps * cond(X) * cond(W) * |lambda|_max (evidence, and the calibration of TOL_K below)
            r_ = float(worst) / max(2.220446049250313e-16 * cond * max(1.0, condW) * sc, 1e-300)
            c.events['tdmd_eigenvalue_accuracy_in_eps_cond:1e%+d' % int(np.floor(np.log10(max(r_, 1e-3))))] += 1
        tags = ['thr' if thr else 'nothr', 'rank_deficient' if int(np.sum(keep)) < min(X.shape) else 'full_rank']
        c.check(self.api, 'eigenvalues_equal_matrix_dmd', ok, tags, {'got': np.asarray(lam), 'want': w, 'worst': worst, 'rank': int(np.sum(keep)), 'dims': list(x.row_dims)}, prop=P)
        lam_a = np.asarray(lam).reshape(-1)
        srt = all(lam_a[k] >= lam_a[k + 1] or np.iscomplexobj(lam_a) for k in range(len(lam_a) - 1)) if not np.iscomplexobj(lam_a) or np.all(np.abs(lam_a.imag) < 1e-14) else True
        c.check(self.api, 'eigenvalues_sorted_descending', bool(srt), tags, prop=P)
        if not okm:
            return
        r = len(lam_a)
        Phi = dense_b_cores(modes.cores).reshape(-1, r) if modes.row_dims[-1] == r else None
        c.check(self.api, 'one_mode_per_eigenvalue', Phi is not None and Phi.shape[0] == X.shape[0], tags, {'row_dims': list(modes.row_dims), 'r': r}, prop=P)
        if Phi is None or Phi.shape[0] != X.shape[0]:
            return
        nz = np.abs(lam_a) > 1e-8 * sc
        scale_m = max(float(np.max(np.abs(Phi))), 1e-300)
        if self.name == 'tdmd_exact':
            # every non-zero eigenvalue has a mode (eigenvector of Y pinv(X), hence not the zero vector), however strongly damped it
            # is: the residual relative to the norm of that mode does not depend on 1 / lambda
            small = (np.abs(lam_a) > 1e-12 * sc) & ~nz
            if np.any(small):
                cn = np.max(np.abs(Phi[:, small]), axis=0)
                c.check(self.api, 'strongly_damped_modes_present', bool(np.all(np.isfinite(cn)) and np.all(cn > 0)), tags, {'eigenvalues': lam_a[small], 'mode_norms': cn}, prop=P)
            # A = Y pinv(X) = (Y V S^-1) U^H is applied in factored form (N x N is never formed: tall grids); ||A||_2 = ||Y V S^-1||_2
            Af = Y @ Vh.conj().T @ np.diag(1.0 / s)
            R = Af @ (U.conj().T @ Phi) - Phi @ np.diag(lam_a)
            err = float(np.max(np.abs(R[:, nz]))) / (scale_m * max(float(np.linalg.norm(Af, 2)), 1e-300)) if np.any(nz) else 0.0
            c.check(self.api, 'exact_modes_are_eigenvectors_of_Y_pinvX', err <= 1e-7 * max(1.0, condW) * max(1.0, cond * 1e-2), tags, {'rel_residual': err, 'cond': cond, 'condW': condW}, prop=P)
        else:
            inr = float(np.max(np.abs(U @ (U.conj().T @ Phi) - Phi))) / scale_m
            Wl = U.conj().T @ Phi
            R = At @ Wl - Wl @ np.diag(lam_a)
            err = float(np.max(np.abs(R))) / (max(float(np.max(np.abs(Wl))), 1e-300) * max(float(np.linalg.norm(At, 2)), 1e-300))
            c.check(self.api, 'standard_modes_are_projected_dmd_modes', inr <= 1e-8 and err <= 1e-7 * max(1.0, condW) * max(1.0, cond * 1e-2), tags, {'out_of_range': inr, 'rel_residual': err}, prop=P)
        c.sig(self.api, list(x.row_dims), list(x.ranks), tags, bool(v['ortho_l'] is True), bool(v['ortho_r'] is True))


def install():
    td = importlib.import_module('scikit_tt.data_driven.tdmd')
    if getattr(td, '__vt_c17__', False):
        return td
    probe.install(td, 'tdmd_exact', Tdmd('tdmd_exact'))
    probe.install(td, 'tdmd_standard', Tdmd('tdmd_standard'))
    td.__vt_c17__ = True
    return td
