"""C15: contracts on the transformed-data-tensor constructions against an explicit loop over multi-indices and
snapshots."""
import importlib
import itertools

import copy

import numpy as np

from . import core, probe
from .contracts_tt import _is_tt, check_returned
from .dense import dense_cores, tt_consistent, dense_b_cores

P = 'C15'
LAST_HOCUR = {'exact': None, 'wrong': None}  # whether the last hocur call reproduced its tensor (used by the AMUSEt-HOCUR contract)


def pristine(functions):
    """deep copy of a (nested) list of basis-function objects: reference evaluations neither depend on nor disturb whatever the
    live objects remember between calls"""
    try:
        return copy.deepcopy(functions)
    except Exception:
        return functions


def product_tensor(factors):
    """factors[k][i, j] = value of the i-th function of mode k at snapshot j  ->  tensor (n_1..n_p, m)"""
    m = factors[0].shape[1]
    out = np.zeros([f.shape[0] for f in factors] + [m])
    for j in range(m):
        v = factors[0][:, j]
        for f in factors[1:]:
            v = np.multiply.outer(v, f[:, j])
        out[..., j] = v
    return out


def data_tensor_class(x, bl, cols=None):
    """class of the transformed data tensor (restricted to the snapshot columns `cols`): 'zero' if it vanishes identically (data on
    common zeros of the basis functions - every relative cut inside the library is 0/0 on it, the inadmissible class of DESIGN
    section 7), 'gapless' if an unfolding has singular values of relative size 1e-15..1e-10 (rank decisions not determined by
    the data), else 'regular'"""
    x = np.asarray(x)
    if cols is not None:
        x = x[:, np.asarray(cols, dtype=int)]
    m = x.shape[1]
    with probe.oracle():
        factors = [np.array([[float(f(x[:, j])) for j in range(m)] for f in fl]) for fl in pristine(bl)]
    n = [f.shape[0] for f in factors]
    if int(np.prod(n)) * m > 2 ** 16:
        return 'regular'
    T = product_tensor(factors)
    if not np.any(T):
        return 'zero'
    for k in range(1, len(n) + 1):
        s = np.linalg.svd(T.reshape(int(np.prod(n[:k])), -1), compute_uv=False)
        if s[0] <= 0:
            return 'zero'
        if np.any((s > 1e-15 * s[0]) & (s <= 1e-10 * s[0])):
            return 'gapless'
    return 'regular'


def true_ranks(x, bl):
    """TT ranks (1e-10 relative) of the transformed data tensor at its p inner bonds (the last one: towards the snapshot mode)"""
    x = np.asarray(x)
    m = x.shape[1]
    with probe.oracle():
        factors = [np.array([[float(f(x[:, j])) for j in range(m)] for f in fl]) for fl in pristine(bl)]
    n = [f.shape[0] for f in factors]
    T = product_tensor(factors)
    out = []
    for k in range(1, len(n) + 1):
        s = np.linalg.svd(T.reshape(int(np.prod(n[:k])), -1), compute_uv=False)
        out.append(max(1, int(np.sum(s > 1e-10 * s[0]))))
    return out


def parse(names, defaults, args, kwargs):
    v = dict(defaults)
    for k, a in enumerate(args):
        v[names[k]] = a
    v.update(kwargs)
    return v


def _check_result(c, api, res, factors, single, tags):
    want = product_tensor(factors)
    p = len(factors)
    m = factors[0].shape[1]
    if single is None:
        if not (_is_tt(res) and tt_consistent(res)[0]):
            c.check(api, 'returns_consistent_tt', False, tags, prop=P)
            return
        got = dense_cores(res.cores)
        got = got.reshape(got.shape[:p + 1]) if got.size == want.size else got
        sc = max(float(np.max(np.abs(want))), 1e-300)
        ok = got.shape == want.shape and float(np.max(np.abs(got - want))) <= 1e-12 * sc
        c.check(api, 'entries_are_products_of_basis_functions', ok, tags, {'modes': [f.shape[0] for f in factors], 'snapshots': m}, prop=P)
        c.check(api, 'dims', list(res.row_dims) == [f.shape[0] for f in factors] + [m] and list(res.col_dims) == [1] * (p + 1), tags, prop=P)
    else:
        # the single core must be exactly the corresponding core of the full train: (1|m) x n_k x 1 x m, diagonal in the snapshot
        k = single
        f = factors[k]
        wantc = np.zeros([1 if k == 0 else m, f.shape[0], 1, m])
        for j in range(m):
            wantc[0 if k == 0 else j, :, 0, j] = f[:, j]
        ok = isinstance(res, np.ndarray) and res.shape == wantc.shape and float(np.max(np.abs(res - wantc))) <= 1e-12 * max(float(np.max(np.abs(wantc))), 1e-300)
        c.check(api, 'single_core_is_core_of_the_train', ok, tags + ['core=%s' % ('first' if k == 0 else 'later')], {'core': k, 'shape': list(getattr(res, 'shape', []))}, prop=P)


class BasisDecomposition(probe.Contract):
    freeze = True  # the oracle sees the arguments as they were at call entry; arrays / lists rewritten by the call are reported
    input_prop = P
    api = 'transform.basis_decomposition'

    def post(self, st, res, args, kwargs):
        c = core.ctx()
        check_returned(self.api, res)
        v = parse(['x', 'phi', 'single_core'], {'single_core': None}, args, kwargs)
        x, phi = np.asarray(v['x']), v['phi']
        m = x.shape[1]
        if int(np.prod([len(f) for f in phi])) * m > 2 ** 16:
            return
        with probe.oracle():
            factors = [np.array([[float(f(x[:, j])) for j in range(m)] for f in fl]) for fl in pristine(phi)]
        tags = ['snapshots=1' if m == 1 else 'snapshots>1'] + (['single_function_mode'] if any(len(f) == 1 for f in phi) else [])
        _check_result(c, self.api, res, factors, v['single_core'], tags)
        c.sig(self.api, [len(f) for f in phi], m, x.shape[0], v['single_core'] is not None)


class CoordinateMajor(probe.Contract):
    freeze = True  # the oracle sees the arguments as they were at call entry; arrays / lists rewritten by the call are reported
    input_prop = P
    api = 'transform.coordinate_major'

    def post(self, st, res, args, kwargs):
        c = core.ctx()
        check_returned(self.api, res)
        v = parse(['x', 'phi', 'single_core'], {'single_core': None}, args, kwargs)
        x, phi = np.asarray(v['x']), v['phi']
        d, m = x.shape
        if len(phi) ** d * m > 2 ** 16:
            return
        factors = [np.array([[float(f(x[i, j])) for j in range(m)] for f in pristine(phi)]) for i in range(d)]
        tags = ['snapshots=1' if m == 1 else 'snapshots>1']
        _check_result(c, self.api, res, factors, v['single_core'], tags)
        c.sig(self.api, len(phi), d, m, v['single_core'] is not None)


class FunctionMajor(probe.Contract):
    freeze = True  # the oracle sees the arguments as they were at call entry; arrays / lists rewritten by the call are reported
    input_prop = P
    api = 'transform.function_major'

    def post(self, st, res, args, kwargs):
        c = core.ctx()
        check_returned(self.api, res)
        v = parse(['x', 'phi', 'add_one', 'single_core'], {'add_one': True, 'single_core': None}, args, kwargs)
        x, phi = np.asarray(v['x']), v['phi']
        d, m = x.shape
        one = bool(v['add_one'])
        if (d + one) ** len(phi) * m > 2 ** 16:
            return
        factors = []
        for f in phi:
            rows = [[float(f(x[i, j])) for j in range(m)] for i in range(d)]
            if one:
                rows = [[1.0] * m] + rows
            factors.append(np.array(rows))
        tags = ['snapshots=1' if m == 1 else 'snapshots>1', 'add_one=%s' % one]
        _check_result(c, self.api, res, factors, v['single_core'], tags)
        c.sig(self.api, len(phi), d, m, one, v['single_core'] is not None)


class Gram(probe.Contract):
    freeze = True  # the oracle sees the arguments as they were at call entry; arrays / lists rewritten by the call are reported
    input_prop = P
    api = 'transform.gram'

    def post(self, st, res, args, kwargs):
        c = core.ctx()
        v = parse(['x_1', 'x_2', 'basis_list'], {}, args, kwargs)
        x1, x2, bl = np.asarray(v['x_1']), np.asarray(v['x_2']), v['basis_list']
        m1, m2 = x1.shape[1], x2.shape[1]
        if int(np.prod([len(f) for f in bl])) * max(m1, m2) > 2 ** 16:
            return
        with probe.oracle():
            f1 = [np.array([[float(f(x1[:, j])) for j in range(m1)] for f in fl]) for fl in pristine(bl)]
            f2 = [np.array([[float(f(x2[:, j])) for j in range(m2)] for f in fl]) for fl in pristine(bl)]
        A = product_tensor(f1).reshape(-1, m1)
        B = product_tensor(f2).reshape(-1, m2)
        want = A.T @ B
        # scale of the rounding noise: the sums of absolute products (an inner product may cancel to exactly 0, e.g. odd functions on
        # mirrored lattice points)
        sc = max(float(np.max(np.abs(A).T @ np.abs(B))), 1e-300)
        ok = isinstance(res, np.ndarray) and res.shape == want.shape and float(np.max(np.abs(res - want))) <= 1e-10 * sc
        c.check(self.api, 'inner_products_of_transformed_snapshots', ok, ['same_data' if x1 is x2 or np.array_equal(x1, x2) else 'two_data_sets'], {'m1': m1, 'm2': m2, 'modes': [len(f) for f in bl]}, prop=P)
        c.sig(self.api, [len(f) for f in bl], m1, m2)


# ---- the cross approximation starts from a fixed, data-independent choice of columns ("multiplier" only enlarges it); if the block
# of the tensor it lands on vanishes identically it cannot find a single independent column and gives up with an exception.  That
# is the documented limitation of the heuristic, not a statement of C15.  The hook below records, per hocur call, whether an
# exactly-zero block was what made the column search come back empty; only then is the exception taken as a refusal.
HOCUR_STATE = {'zero_block': False, 'li': [], 'mv': []}


def hocur_gave_up_on_zero_block(e):
    return isinstance(e, (ValueError, IndexError, np.linalg.LinAlgError)) and HOCUR_STATE['zero_block']


def _li_cols_post(st, res, args, kwargs):
    try:
        m = np.asarray(args[0])
        if len(res) == 0 and m.size > 0 and not np.any(m):
            HOCUR_STATE['zero_block'] = True
        # numerical rank of the sampled submatrix (first half sweep, one call per bond): what the random column choice left to find
        tol0 = (kwargs.get('tol', args[1] if len(args) > 1 else None) == 0)
        if tol0:  # the call inside the maximum-volume search: its argument is (kept columns) x (rows)
            HOCUR_STATE['mv'].append(int(m.shape[0]))
        else:
            sv = np.linalg.svd(np.array(m, dtype=float), compute_uv=False) if m.size else np.zeros(0)
            HOCUR_STATE['li'].append((int(np.sum(sv > 1e-10 * sv[0])) if sv.size and sv[0] > 0 else 0, len(res)))
    except Exception:
        pass


def _extract_post(st, res, args, kwargs):
    # numerical rank of every candidate submatrix the library extracts (the first p of a call belong to the first half sweep: all
    # candidate columns of a bond, before any selection)
    try:
        y = np.array(res, dtype=float)
        sv = np.linalg.svd(y, compute_uv=False) if y.size else np.zeros(0)
        HOCUR_STATE['ex'].append((int(np.sum(sv > 1e-8 * sv[0])) if sv.size and sv[0] > 0 else 0, int(y.shape[1]) if y.ndim == 2 else -1))
    except Exception:
        HOCUR_STATE['ex'].append((-1, -1))


class Hocur(probe.Contract):
    freeze = True  # the oracle sees the arguments as they were at call entry; arrays / lists rewritten by the call are reported
    input_prop = P
    api = 'transform.hocur'

    def pre(self, args, kwargs):
        from .contracts_api import snapshot_plain
        HOCUR_STATE['zero_block'] = False
        HOCUR_STATE['li'] = []
        HOCUR_STATE['mv'] = []
        HOCUR_STATE['ex'] = []
        v = parse(['x', 'basis_list', 'ranks', 'repeats', 'multiplier', 'progress', 'string'], {'repeats': 1, 'multiplier': 10}, args, kwargs)
        return {'plain': snapshot_plain(args, kwargs), 'ranks': copy.deepcopy(v.get('ranks')), 'x': np.array(v['x'], copy=True)}

    def exc(self, st, e, args, kwargs):
        if st is not None:
            from .contracts_api import check_plain
            check_plain(self.api, st['plain'], raised=True)

    def post(self, st, res, args, kwargs):
        c = core.ctx()
        check_returned(self.api, res)
        v = parse(['x', 'basis_list', 'ranks', 'repeats', 'multiplier', 'progress', 'string'], {'repeats': 1, 'multiplier': 10}, args, kwargs)
        if st is not None:
            from .contracts_api import check_plain
            check_plain(self.api, st['plain'])  # the requested ranks are the caller's list: not to be clipped / overwritten in place
            c.check(self.api, 'data_unchanged', np.array_equal(np.asarray(v['x']), st['x']), [], prop=P)
            v['ranks'] = st['ranks']  # what was requested at call time
        LAST_HOCUR['exact'] = None
        LAST_HOCUR['wrong'] = None  # set when the HOCUR oracle DECIDED that the decomposition is not what it has to be
        x, bl = np.asarray(v['x']), v['basis_list']
        m = x.shape[1]
        n = [len(f) for f in bl]
        if not (_is_tt(res) and tt_consistent(res)[0]):
            return
        p = len(n)
        large = float(np.prod([float(k) for k in n])) * m > 2 ** 15
        if large and (m > 64 or p > 80):
            return
        with probe.oracle():
            factors = [np.array([[float(f(x[:, j])) for j in range(m)] for f in fl]) for fl in pristine(bl)]
        want = None if large else product_tensor(factors)
        if large:
            # many modes: the unfolding at bond k is L_k diag(|R_k[:, j]|) Q^T with Q orthonormal (the snapshot index sits on the right):
            # its singular values are those of L_k diag(...), obtained from m x m Gram matrices (Hadamard products over the modes)
            grams = [f.T @ f for f in factors]
            def unfolding_spectrum(k):
                GL = np.ones((m, m))
                for g in grams[:k]:
                    GL = GL * g
                dR = np.ones(m)
                for g in grams[k:]:
                    dR = dR * np.diag(g)
                dR = np.sqrt(np.maximum(dR, 0.0))
                ev = np.linalg.eigvalsh(dR[:, None] * GL * dR[None, :])
                return np.sqrt(np.maximum(ev[::-1], 0.0))
        # true TT ranks of the transformed data tensor
        true = [1]
        smin_rel = 1.0
        for k in range(1, p + 1):
            s = unfolding_spectrum(k) if large else np.linalg.svd(want.reshape(int(np.prod(n[:k])), -1), compute_uv=False)
            if large and s[0] > 0:
                # (eigenvalues of a Gram matrix resolve singular values only down to sqrt(eps) relative: decided only with a gap there)
                if np.any((s > 1e-9 * s[0]) & (s <= 1e-6 * s[0])):
                    c.skip('hocur_rank_decision_without_spectral_gap')
                    return
                s = np.where(s > 1e-6 * s[0], s, 0.0)
            r = int(np.sum(s > 1e-10 * max(s[0], 1e-300)))
            if np.any((s > 1e-15 * max(s[0], 1e-300)) & (s <= 1e-10 * max(s[0], 1e-300))):
                # directions of relative size 1e-15..1e-10: whether the cross approximation takes them for independent columns (its
                # own tolerance is 1e-14) is not determined by the data, and a direction it does take amplifies rounding by
                # eps / 1e-13.  "True rank" is not well defined for this tensor: clause not decided.
                c.skip('hocur_rank_decision_without_spectral_gap')
                return
            true.append(r)
            if r > 0:
                smin_rel = min(smin_rel, float(s[r - 1] / max(s[0], 1e-300)))
        true.append(1)
        req = v['ranks'] if isinstance(v['ranks'], list) else [1] + [v['ranks']] * p + [1]
        req = [min(int(r), m) for r in req]
        if not all(req[k] >= true[k] for k in range(p + 2)):
            c.skip('hocur_requested_ranks_below_true_ranks')
            return
        got_r = list(res.ranks)
        if not all(got_r[k] >= true[k] for k in range(p + 2)):
            # the documented fallback: fewer linearly independent columns were found among the randomly chosen ones
            # ("increase the multiplier").  That is what happened iff the sampled submatrix at some bond had a smaller numerical rank
            # than the tensor's unfolding; a reduction although every sampled submatrix had full rank is not that fallback.
            # Observed at the library's own column search (first half sweep, one search per bond): the number of columns it kept must
            # be min(independent columns found, requested rank); then the reduction is explained by the sample.
            # The independent columns are to be looked for among ALL candidate columns of the bond (multiplier x rank of them - the
            # documented purpose of `multiplier`): the search must have found at least the well separated (1e-8) numerical rank of
            # the candidate submatrix the library extracted.
            li, mv, ex = HOCUR_STATE['li'][:p], HOCUR_STATE['mv'][:p], HOCUR_STATE.get('ex', [])[:p]
            deficient = len(li) < p or len(mv) < p or len(ex) < p or any(e[0] < 0 for e in ex) or \
                all(mv[k] == min(li[k][1], req[k + 1]) and li[k][1] >= min(ex[k][0], req[k + 1]) for k in range(p))
            c.events['hocur_returned_reduced_ranks'] += 1
            if deficient:
                c.skip('hocur_returned_reduced_ranks')
                return
            LAST_HOCUR['wrong'] = 'ranks reduced although the candidate columns are not deficient'
            c.check(self.api, 'ranks_reduced_only_when_sampled_columns_are_deficient', False, ['snapshots=1' if m == 1 else 'snapshots>1'],
                    {'true_ranks': true, 'requested': req, 'returned': got_r, 'sampled_submatrix_ranks_and_columns_found': li, 'columns_kept': mv, 'candidate_submatrix_rank_and_columns': ex}, prop=P)
            return
        c.check(self.api, 'ranks_reduced_only_when_sampled_columns_are_deficient', True, ['snapshots=1' if m == 1 else 'snapshots>1'], prop=P)
        if large:
            # entries at sampled multi-indices (all snapshots each) instead of the dense tensor
            rs = np.random.default_rng(p * 1000 + m)
            worst, scale = 0.0, 0.0
            for _ in range(200):
                idx = [int(rs.integers(0, k)) for k in n]
                wv = np.ones(m)
                for k in range(p):
                    wv = wv * factors[k][idx[k], :]
                M = np.ones((1, 1))
                for k in range(p):
                    M = M @ res.cores[k][:, idx[k], 0, :]
                gv = (M @ res.cores[p][:, :, 0, 0]).reshape(-1)
                worst, scale = max(worst, float(np.max(np.abs(gv - wv)))), max(scale, float(np.max(np.abs(wv))))
            err = worst / max(scale, 1e-300)
            LAST_HOCUR['exact'] = err <= 1e-10
            LAST_HOCUR['wrong'] = None if err <= 1e-6 else 'does not reproduce the tensor although the ranks suffice (rel. error %.2e)' % err
            c.check(self.api, 'reproduces_tensor_when_ranks_suffice', err <= 1e-6, ['snapshots=1' if m == 1 else 'snapshots>1', 'many_modes_sampled_entries'],
                    {'rel_err_on_200_sampled_fibres': err, 'modes': n, 'snapshots': m, 'true_ranks': true, 'requested': req, 'returned': got_r}, prop=P)
            c.events['hocur_decided'] += 1
            c.events['hocur_decided_many_modes'] += 1
            c.sig(self.api, 'many_modes', p, m, true[:6], v['repeats'], v['multiplier'])
            return
        got = dense_cores(res.cores).reshape(want.shape)
        sc = max(float(np.linalg.norm(want)), 1e-300)
        err = float(np.linalg.norm(got - want)) / sc
        LAST_HOCUR['exact'] = err <= 1e-10
        LAST_HOCUR['wrong'] = None if err <= 1e-7 + 1e-10 / smin_rel else 'does not reproduce the tensor although the ranks suffice (rel. error %.2e)' % err
        # a cross approximation recovers the directions belonging to small singular values only up to eps / sigma_min
        c.check(self.api, 'reproduces_tensor_when_ranks_suffice', err <= 1e-7 + 1e-10 / smin_rel, ['snapshots=1' if m == 1 else 'snapshots>1'],
                {'rel_err': err, 'smallest_relative_singular_value': smin_rel, 'modes': n, 'snapshots': m, 'true_ranks': true, 'requested': req, 'returned': got_r}, prop=P)
        c.events['hocur_decided'] += 1
        c.sig(self.api, n, m, true, v['repeats'], v['multiplier'])


def install():
    tr = importlib.import_module('scikit_tt.data_driven.transform')
    for mname in ('regression', 'tedmd', 'tgedmd', 'tdmd'):
        importlib.import_module('scikit_tt.data_driven.' + mname)
    if getattr(tr, '__vt_c15__', False):
        return tr
    probe.install(tr, 'basis_decomposition', BasisDecomposition(), replace_everywhere=True)
    probe.install(tr, 'coordinate_major', CoordinateMajor(), replace_everywhere=True)
    probe.install(tr, 'function_major', FunctionMajor(), replace_everywhere=True)
    probe.install(tr, 'gram', Gram(), replace_everywhere=True)
    probe.install(tr, 'hocur', Hocur(), replace_everywhere=True)
    probe.hook(tr, '__hocur_find_li_cols', 'transform.__hocur_find_li_cols', post=_li_cols_post)
    probe.hook(tr, '__hocur_extract_matrix', 'transform.__hocur_extract_matrix', post=_extract_post)
    tr.__vt_c15__ = True
    return tr
