"""C18: contracts on tedmd.amuset_hosvd / amuset_hocur against dense EDMD (pinv(Psi_x^T) Psi_y^T with the library's
relative cut), evaluated for every index-set pair of a call (so that a batch call is checked pair by pair)."""
import importlib

import numpy as np

from . import core, probe
from .contracts_tt import _is_tt, check_returned
from .dense import dense_cores, dense_b_cores, tt_consistent
from .monitors_transform import product_tensor, parse, LAST_HOCUR, pristine
from .monitors_tdmd import match_multiset

P = 'C18'
CUT = 1e-3  # hard-coded relative cut of tedmd._reduced_matrix


def near_cut(s, thr, width=1e-6):
    rel = s / max(s[0], 1e-300)
    return bool(np.any((rel > thr * (1 - width)) & (rel < thr * (1 + width))))


def effective(s, thr):
    """does the relative cut `thr` remove a direction that is not numerically zero?"""
    rel = s / max(s[0], 1e-300)
    return bool(np.any((rel <= thr) & (rel > 1e-10)))


class Amuset(probe.Contract):
    freeze = True  # the oracle sees the arguments as they were at call entry; arrays / lists rewritten by the call are reported
    input_prop = P
    def __init__(self, name):
        self.api = 'tedmd.' + name
        self.name = name

    def pre(self, args, kwargs):
        del REDUCED[:]
        return None

    def post(self, st, res, args, kwargs):
        c = core.ctx()
        check_returned(self.api, res)
        if self.name == 'amuset_hosvd':
            v = parse(['data_matrix', 'x_indices', 'y_indices', 'basis_list', 'threshold', 'max_rank', 'progress', 'ef_tf', 'st_tf'],
                      {'threshold': 1e-2, 'max_rank': np.inf, 'ef_tf': False, 'st_tf': False}, args, kwargs)
        else:
            v = parse(['data_matrix', 'x_indices', 'y_indices', 'basis_list', 'max_rank', 'multiplier', 'progress'], {'max_rank': 1000, 'multiplier': 2}, args, kwargs)
        Z, bl = np.asarray(v['data_matrix']), v['basis_list']
        m = Z.shape[1]
        n = [len(f) for f in bl]
        N = int(np.prod(n))
        if N * m > 2 ** 15:
            return
        batch = isinstance(v['x_indices'], list)
        xs = v['x_indices'] if batch else [v['x_indices']]
        ys = v['y_indices'] if batch else [v['y_indices']]
        lams, tens = res[0], res[1]
        lams = lams if batch else [lams]
        tens = tens if batch else [tens]
        if batch and len(xs) == 1:  # the library unwraps one-element lists
            lams, tens = [res[0]], [res[1]]
        c.check(self.api, 'one_result_per_index_set_pair', len(lams) == len(xs) and len(tens) == len(xs), ['batch' if batch else 'single'], prop=P)
        if len(lams) != len(xs) or len(tens) != len(xs):
            return
        with probe.oracle():
            factors = [np.array([[float(f(Z[:, j])) for j in range(m)] for f in fl]) for fl in pristine(bl)]
        T = product_tensor(factors)
        Psi = T.reshape(N, m)
        # is the decomposition of Psi exact (no effective truncation)?
        if self.name == 'amuset_hosvd':
            if v['max_rank'] != np.inf and v['max_rank'] < m:
                c.skip('amuset_rank_cap_effective')
                return
            part = np.ones((1, m))
            for k in range(len(bl)):
                part = np.einsum('aj,bj->abj', part, factors[k]).reshape(-1, m)
                s = np.linalg.svd(part, compute_uv=False)
                if effective(s, v['threshold']) or near_cut(s, v['threshold']):
                    c.skip('amuset_hosvd_truncation_effective')
                    return
        else:
            # AMUSEt works on the cross approximation of the transformed data tensor: where that decomposition is exact the clauses
            # below are decided; where the oracle of the decomposition could not decide (ranks below the true ranks, sampled columns
            # deficient, no spectral gap) or found it exact only to cross-approximation accuracy, nothing is claimed; where it DECIDED
            # that the decomposition is wrong, AMUSEt (HOCUR variant) works on a wrong tensor and the statement is broken here as well
            if LAST_HOCUR.get('wrong'):
                c.check(self.api, 'works_on_the_transformed_data_tensor', False, ['batch' if batch else 'single'], {'decomposition': LAST_HOCUR['wrong'], 'modes': n, 'snapshots': m}, prop=P)
                return
            if LAST_HOCUR.get('exact') is not True:
                c.skip('amuset_hocur_decomposition_not_exact')
                return
            c.check(self.api, 'works_on_the_transformed_data_tensor', True, ['batch' if batch else 'single'], prop=P)
        for k, (xi, yi) in enumerate(zip(xs, ys)):
            xi, yi = np.asarray(xi), np.asarray(yi)
            Px, Py = Psi[:, xi], Psi[:, yi]
            s = np.linalg.svd(Px, compute_uv=False)
            if near_cut(s, CUT) or s[0] <= 0:
                c.skip('amuset_reduced_cut_on_a_singular_value')
                continue
            if s[0] <= 1e-9 * float(np.linalg.norm(Psi, 2)):
                # the x-snapshots sit (up to rounding) on common zeros of the basis functions: Psi_x is numerically zero and the
                # relative cut of its rounding-level singular values is void (the numerically-zero class of DESIGN section 7)
                c.skip('amuset_x_block_numerically_zero')
                continue
            K = np.linalg.pinv(Px.T, rcond=CUT) @ Py.T
            if not np.all(np.isfinite(K)) or float(np.linalg.norm(K, 2)) < 1e-6:
                # (numerically) zero EDMD matrix - e.g. the y-snapshots sit on common zeros of the basis functions: every
                # eigenvalue is a rounding-level number and relative statements about them are void
                c.skip('amuset_edmd_matrix_numerically_zero')
                continue
            w, V = np.linalg.eig(K)
            tags = ['batch' if batch else 'single', 'pair=%s' % ('first' if k == 0 else 'later')]
            lam = np.asarray(lams[k]).reshape(-1)
            sc = max(float(np.max(np.abs(w))) if w.size else 0.0, 1.0)
            # zero eigenvalues of the (rank-deficient, non-normal) EDMD matrix are only determined up to eps^(1/k):
            # classify |lambda| < 1e-4 as zero on both sides and skip the case if an eigenvalue sits near that border
            if np.any((np.abs(w) > 1e-6 * sc) & (np.abs(w) < 1e-2 * sc)):
                c.skip('amuset_eigenvalue_near_zero_border')
                continue
            nzw = w[np.abs(w) > 1e-4 * sc]
            kept = int(np.sum(s / s[0] > CUT))
            # conditioning of the non-symmetric eigenproblem
            try:
                condV = float(np.linalg.cond(V))
            except Exception:
                condV = np.inf
            if condV > 1e5 or float(s[0] / s[kept - 1]) > 1e6:
                c.skip('amuset_eigenproblem_ill_conditioned')
                continue
            tol = 1e-9 * sc * max(1.0, condV) * max(1.0, 1e-2 * float(s[0] / s[kept - 1]))
            cplx_pairs = bool(np.any(np.abs(nzw.imag) > 1e-9 * sc))
            # library list = real parts of the non-zero eigenvalues, plus (approximately) zero entries for the zero
            # eigenvalues of the reduced matrix
            rest = list(lam)
            ok, worst = True, 0.0
            for z in np.real(nzw):
                if not rest:
                    ok = False
                    break
                j = int(np.argmin([abs(z - q) for q in rest]))
                worst = max(worst, abs(z - rest[j]))
                rest.pop(j)
            ok = ok and worst <= tol and all(abs(q) <= 1e-3 * sc for q in rest)
            c.check(self.api, 'eigenvalues_equal_matrix_edmd', ok and len(lam) == kept, tags, {'got': lam, 'want_nonzero_real_parts': np.real(nzw), 'kept_directions': kept, 'worst': worst,
                                                                                    'modes': n, 'x': xi, 'y': yi}, prop=P)
            if not cplx_pairs:
                dist = np.abs(lam - 1)
                c.check(self.api, 'ordered_by_distance_to_one', bool(np.all(dist[1:] >= dist[:-1] - 1e-9 * sc)), tags, {'got': lam}, prop=P)
            # position-wise statement (also for complex spectra): the returned sequence is Re(lambda) of the eigenvalues sorted by the
            # distance |lambda - 1| of the *complex* eigenvalue.  Zero eigenvalues (distance 1) are removed on both sides; decided
            # only where no non-zero eigenvalue has a real part that could be taken for such a zero and the order is not a near-tie.
            if ok and len(lam) == kept and nzw.size:
                order = np.argsort(np.abs(nzw - 1), kind='stable')
                exp_c = nzw[order]
                exp_r, exp_d = np.real(exp_c), np.abs(exp_c - 1)
                ambiguous = bool(np.any(np.abs(exp_r) <= 1e-2 * sc))
                for a in range(len(exp_c) - 1):
                    if exp_d[a + 1] - exp_d[a] <= 10 * tol + 1e-6 * sc and abs(exp_r[a + 1] - exp_r[a]) > tol:
                        ambiguous = True
                if ambiguous:
                    c.skip('amuset_order_is_a_near_tie')
                else:
                    got_nz = np.array([q for q in lam if abs(q) > 1e-3 * sc])
                    good = got_nz.shape == exp_r.shape and bool(np.all(np.abs(got_nz - exp_r) <= 10 * tol))
                    c.check(self.api, 'sequence_is_real_part_of_spectrum_sorted_by_complex_distance_to_one', good, tags + (['complex_spectrum'] if cplx_pairs else []),
                            {'got': lam, 'want': exp_r, 'complex_eigenvalues': exp_c}, prop=P)
            t = tens[k]
            if not (_is_tt(t) and tt_consistent(t)[0]) or cplx_pairs or not ok:
                continue
            Xi = dense_b_cores(t.cores)
            Xi = Xi.reshape(N, -1) if Xi.size % N == 0 else None
            if Xi is None or Xi.shape[1] != len(lam):
                c.check(self.api, 'one_eigentensor_per_eigenvalue', False, tags, {'row_dims': list(t.row_dims), 'eigenvalues': len(lam)}, prop=P)
                continue
            R = K @ Xi - Xi @ np.diag(lam)
            scale = max(float(np.max(np.abs(Xi))), 1e-300) * max(float(np.linalg.norm(K, 2)), 1e-300)
            err = float(np.max(np.abs(R))) / scale
            if err > 1e-6 * max(1.0, condV) and lapack_eig_inaccurate(k):
                tags = tags + ['lapack_eig_inaccurate_on_reduced_matrix']
            c.check(self.api, 'eigentensors_satisfy_eigen_equation', err <= 1e-6 * max(1.0, condV), tags, {'rel_residual': err, 'condV': condV, 'modes': n, 'pair': k}, prop=P)
        c.sig(self.api, n, m, len(xs), batch)


REDUCED = []  # reduced matrices handed out by the library's own helper during the current AMUSEt call (one per index-set pair)


def _reduced_post(st, res, args, kwargs):
    try:
        REDUCED.append(np.array(res[0], copy=True))
    except Exception:
        REDUCED.append(None)


def lapack_eig_inaccurate(k):
    """observed at the library's helper: does numpy.linalg.eig, applied to the reduced matrix of pair k as the library applies it,
    return an eigenpair with a large residual?  (LAPACK's balancing is harmful on reduced matrices with a row of rounding-level entries
    - exact zeros in exact arithmetic: the eigenvector of the isolated eigenvalue comes back as a unit vector.)"""
    if k >= len(REDUCED) or REDUCED[k] is None:
        return False
    M = REDUCED[k]
    try:
        w, W = np.linalg.eig(M)
        return float(np.max(np.abs(M @ W - W @ np.diag(w)))) > 1e-8 * max(float(np.linalg.norm(M, 2)), 1e-300)
    except Exception:
        return False


def install():
    te = importlib.import_module('scikit_tt.data_driven.tedmd')
    if getattr(te, '__vt_c18__', False):
        return te
    probe.hook(te, '_reduced_matrix', 'tedmd._reduced_matrix', post=_reduced_post)
    probe.install(te, 'amuset_hosvd', Amuset('amuset_hosvd'))
    probe.install(te, 'amuset_hocur', Amuset('amuset_hocur'))
    te.__vt_c18__ = True
    return te
