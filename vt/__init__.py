"""Runtime-monitoring harness for scikit_tt (see /verif/DESIGN.md)."""
