"""Per-shard monitoring context: counts what the monitors observed, records violations with
mechanism tags (api, check, tags) and a replayable case reference.  Nothing here raises into
library code: monitors record and return."""
import json
import os
import threading
import time
import traceback
import zlib
from collections import Counter, OrderedDict

import numpy as np

MAX_WITNESS_PER_KEY = 3
MAX_SAMPLES = 6


def jsonable(x, depth=0):
    """best-effort conversion of a witness/sample to JSON (arrays shortened)"""
    if depth > 6:
        return repr(x)[:200]
    if x is None or isinstance(x, (bool, int, str)):
        return x
    if isinstance(x, float):
        return x if np.isfinite(x) else repr(x)
    if isinstance(x, complex):
        return {'re': x.real, 'im': x.imag}
    if isinstance(x, np.generic):
        return jsonable(x.item(), depth + 1)
    if isinstance(x, np.ndarray):
        if x.size <= 64:
            if np.iscomplexobj(x):
                return {'shape': list(x.shape), 're': np.real(x).round(12).tolist(), 'im': np.imag(x).round(12).tolist()}
            return {'shape': list(x.shape), 'v': np.asarray(x, dtype=float).round(12).tolist() if x.dtype != object else repr(x)[:200]}
        return {'shape': list(x.shape), 'dtype': str(x.dtype), 'norm': float(np.linalg.norm(np.asarray(x).ravel())) if x.dtype != object else None}
    if isinstance(x, dict):
        return {str(k): jsonable(v, depth + 1) for k, v in x.items()}
    if isinstance(x, (list, tuple, set, frozenset)):
        return [jsonable(v, depth + 1) for v in list(x)[:64]]
    return repr(x)[:200]


class Ctx(object):
    """monitoring context of one shard"""

    def __init__(self, prop, tier, seed, shard, nshards, only=None):
        self.prop = prop
        self.tier = tier
        self.seed = int(seed)
        self.shard = shard
        self.nshards = nshards
        self.only = only  # (workload, idx) for replay
        self.cases = 0  # driven cases
        self.checks = Counter()  # monitor evaluations "api:check"
        self.sigs = set()  # distinct non-trivial case signatures
        self.skipped = Counter()
        self.lapack = Counter()
        self.events = Counter()  # free-form observation counters
        self.reached = Counter()  # anchored functions entered (sys.monitoring)
        self.samples = []
        self.viol = OrderedDict()  # key -> {api, check, tags, count, witnesses}
        self.cur = None  # current case {workload, idx, desc}
        self.t0 = time.time()
        self.local = threading.local()
        self.workload_counts = Counter()
        self.timing = {}
        self.aux_rng = None  # per-case generator for harness-side choices that must not disturb the case's own stream

    # ---- randomness -------------------------------------------------------------------------
    def case_rng(self, workload, idx):
        ss = np.random.SeedSequence([self.seed, zlib.crc32(self.prop.encode()), zlib.crc32(workload.encode()), int(idx)])
        return np.random.default_rng(ss)

    # ---- case bookkeeping -------------------------------------------------------------------
    def begin_case(self, workload, idx, desc=None):
        self.cur = {'workload': workload, 'idx': int(idx), 'desc': desc}
        self.cases += 1
        self.workload_counts[workload] += 1
        self.aux_rng = np.random.default_rng(np.random.SeedSequence([self.seed, zlib.crc32(workload.encode()), int(idx), 777]))
        # the library uses the global NumPy RNG in places (tt.rand, sampling): seed it per case
        np.random.seed((self.seed * 1000003 + zlib.crc32(workload.encode()) + idx) % (2 ** 32))

    def describe(self, desc):
        if self.cur is not None:
            self.cur['desc'] = jsonable(desc)

    def sig(self, *parts):
        self.sigs.add(json.dumps(jsonable(parts), sort_keys=True))

    def skip(self, reason):
        self.skipped[reason] += 1

    def sample(self, obj, force=False):
        if len(self.samples) < MAX_SAMPLES or force:
            self.samples.append(jsonable(obj))

    # ---- the monitors report here -----------------------------------------------------------
    def check(self, api, check, ok, tags=(), detail=None, prop=None):
        """one evaluation of monitor `api:check`; ok False -> violation recorded (never raises).
        `prop` is the property the monitor belongs to (default: the property being checked)."""
        prop = prop or self.prop
        self.checks[prop + '|' + api + ':' + check] += 1
        if ok:
            return True
        self.violation(api, check, tags, detail, prop=prop)
        return False

    def violation(self, api, check, tags=(), detail=None, prop=None):
        prop = prop or self.prop
        tags = sorted(set(str(t) for t in tags))
        key = json.dumps([prop, api, check, tags])
        rec = self.viol.get(key)
        if rec is None:
            rec = {'property': prop, 'api': api, 'check': check, 'tags': tags, 'count': 0, 'witnesses': []}
            self.viol[key] = rec
        rec['count'] += 1
        if len(rec['witnesses']) < MAX_WITNESS_PER_KEY:
            rec['witnesses'].append({'case': dict(self.cur) if self.cur else None, 'detail': jsonable(detail),
                                     'seed': self.seed, 'tier': self.tier, 'shard': self.shard,
                                     'nshards': self.nshards})

    def exception(self, api, exc, tags=(), detail=None, prop=None):
        """an exception escaped a monitored public call on admissible input"""
        tb = traceback.extract_tb(exc.__traceback__)
        inner = None
        for fr in tb:
            if 'scikit_tt' in fr.filename:
                inner = fr
        site = 'site=%s:%s' % (os.path.basename(inner.filename), inner.name) if inner is not None else 'site=?'
        self.violation(api, 'exception', list(tags) + ['exc=' + type(exc).__name__, site],
                       {'message': str(exc)[:300], 'line': inner.lineno if inner is not None else None, 'input': detail},
                       prop=prop)

    def ran(self, api, prop=None):
        """count one completed (non-raising) monitored public call: the 'no exception' monitor"""
        self.checks[(prop or self.prop) + '|' + api + ':exception'] += 1

    # ---- result -------------------------------------------------------------------------------
    def result(self):
        return {'property': self.prop, 'tier': self.tier, 'seed': self.seed, 'shard': self.shard,
                'cases': self.cases, 'checks': dict(self.checks), 'sigs': sorted(self.sigs),
                'skipped': dict(self.skipped), 'lapack': dict(self.lapack), 'events': dict(self.events),
                'reached': dict(self.reached), 'samples': self.samples, 'violations': list(self.viol.values()),
                'workloads': dict(self.workload_counts), 'timing': self.timing, 'wall_s': time.time() - self.t0}


# the single live context of this process (set by vt.shard)
CTX = None


def ctx():
    return CTX


def set_ctx(c):
    global CTX
    CTX = c
    return c
