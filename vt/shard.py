"""One shard of one check: a fresh interpreter that imports the library from the repository working tree,
arms the monitors of the property and drives its share of the workload cases."""
import argparse
import faulthandler
import importlib
import json
import signal
import os
import sys
import time
import types


def _stub_matplotlib():
    try:
        import matplotlib  # noqa
        return
    except Exception:
        pass
    m = types.ModuleType('matplotlib')
    p = types.ModuleType('matplotlib.pyplot')
    m.pyplot = p
    sys.modules['matplotlib'] = m
    sys.modules['matplotlib.pyplot'] = p


class Workload(object):
    def __init__(self, name, fn, quick, thorough, enum=None):
        self.name = name
        self.fn = fn  # fn(ctx, rng, idx[, param])
        self.quick = quick
        self.thorough = thorough
        self.enum = enum  # optional: enum(tier) -> list of parameters; case idx -> params[idx]

    def count(self, tier):
        if self.enum is not None:
            n = len(self.enum(tier))
            cap = self.quick if tier == 'quick' else self.thorough
            return n if cap is None else min(n, cap)
        # the per-workload numbers were sized on a slow machine; both tiers have room for more random cases on this one
        scale = float(os.environ.get('VERIF_QUICK_SCALE', '3')) if tier == 'quick' else float(os.environ.get('VERIF_THOROUGH_SCALE', '4'))
        return int((self.quick if tier == 'quick' else self.thorough) * scale)


class CaseTimeout(BaseException):
    pass


def _on_alarm(signum, frame):
    raise CaseTimeout()


CASE_TIMEOUT = float(os.environ.get('VERIF_CASE_TIMEOUT', '400'))  # (thorough tier; the quick tier uses 150 s.  Wall clock on a possibly loaded machine: generous - the slowest cases take 5-20 s on an idle one)


def main(argv=None):
    signal.signal(signal.SIGALRM, _on_alarm)
    ap = argparse.ArgumentParser()
    ap.add_argument('--prop', required=True)
    ap.add_argument('--tier', default='quick')
    ap.add_argument('--seed', type=int, default=0)
    ap.add_argument('--shard', type=int, default=0)
    ap.add_argument('--nshards', type=int, default=1)
    ap.add_argument('--out', required=True)
    ap.add_argument('--repo', default=os.environ.get('VERIF_REPO', '/repo'))
    ap.add_argument('--only', default=None, help='workload:idx (replay of a single case)')
    ap.add_argument('--budget', type=float, default=float(os.environ.get('VERIF_SHARD_BUDGET', '0')))
    a = ap.parse_args(argv)

    faulthandler.enable()
    # address-space cap per shard: a run-away case (library or oracle) ends in MemoryError -> recorded, run inconclusive,
    # instead of the kernel OOM killer taking the machine down
    try:
        import resource
        cap = int(float(os.environ.get('VERIF_SHARD_MEM_GB', '6')) * 2 ** 30)
        resource.setrlimit(resource.RLIMIT_AS, (cap, cap))
    except Exception:
        pass
    repo = os.path.abspath(a.repo)
    sys.path.insert(0, repo)
    sys.dont_write_bytecode = True
    _stub_matplotlib()
    import numpy as np
    np.seterr(all='ignore')
    import warnings
    warnings.filterwarnings('ignore')
    import scikit_tt
    if not os.path.abspath(scikit_tt.__file__).startswith(repo + os.sep):
        print('shard: scikit_tt imported from %s, not from %s' % (scikit_tt.__file__, repo))
        sys.exit(3)

    from vt import core, probe
    only = None
    if a.only:
        w, i = a.only.rsplit(':', 1)
        only = (w, int(i))
    ctx = core.set_ctx(core.Ctx(a.prop, a.tier, a.seed, a.shard, a.nshards, only=only))
    ctx.repo = repo
    probe.require_guard()
    mod = importlib.import_module('vt.props.' + a.prop.lower())
    probe.install_coverage(repo)
    mod.setup(ctx)
    probe.arm()
    if os.environ.get('VERIF_NO_PROCESS_HISTORY', '') == '' and getattr(mod, 'PROCESS_HISTORY', True):
        # (also when a single case is replayed: the recorded shard number selects the same history)
        from vt.props import _primer
        try:
            ctx.begin_case('process_history', a.shard)
            _primer.run(ctx, a.shard)
        except Exception:
            probe.monitor_error('driver:process_history', 'driver')
    t0 = time.time()
    truncated = False
    for wl in mod.WORKLOADS:
        n = wl.count(a.tier)
        params = wl.enum(a.tier) if wl.enum is not None else None
        for idx in range(n):
            if only is not None:
                if (wl.name, idx) != only:
                    continue
            elif idx % a.nshards != a.shard:
                continue
            if a.budget and time.time() - t0 > a.budget:
                truncated = True
                break
            ctx.begin_case(wl.name, idx)
            rng = ctx.case_rng(wl.name, idx)
            probe.clear_live()
            tc = time.time()
            try:
                # watchdog per case (a wall-clock limit is never a verdict: a case that runs into it is counted and makes the run
                # inconclusive unless a violation was observed elsewhere; without it one diverging computation - e.g. a propagator
                # fed with an exploding state - would stall the whole shard and hide what the other cases show)
                signal.setitimer(signal.ITIMER_REAL, CASE_TIMEOUT if (os.environ.get('VERIF_CASE_TIMEOUT') or a.tier != 'quick') else 150.0, 5.0)  # (repeats: the library has bare except clauses that could swallow one firing)
                try:
                    if params is not None:
                        wl.fn(ctx, rng, idx, params[idx])
                    else:
                        wl.fn(ctx, rng, idx)
                finally:
                    signal.setitimer(signal.ITIMER_REAL, 0)
            except CaseTimeout:
                probe.S.busy = 0
                probe.S.depth = 0
                del probe.S.targets[:]
                del probe.S.apis[:]
                ctx.events['case_timeout'] += 1
                ctx.events['case_timeout:' + wl.name] += 1
            except Exception:
                probe.S.busy = 0
                probe.S.depth = 0
                del probe.S.targets[:]
                del probe.S.apis[:]
                probe.monitor_error('driver', wl.name)
            ctx.timing[wl.name] = ctx.timing.get(wl.name, 0.0) + time.time() - tc
    probe.disarm()
    if truncated:
        ctx.events['truncated_by_budget'] += 1
    if hasattr(mod, 'finish'):
        mod.finish(ctx)
    res = ctx.result()
    res['failpoint_hits'] = probe.S.failpoint_hits
    res['required'] = list(getattr(mod, 'REQUIRED', []))
    with open(a.out, 'w') as f:
        json.dump(res, f, default=lambda o: repr(o)[:400])
    return 0


if __name__ == '__main__':
    sys.exit(main())
