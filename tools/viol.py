#!/venv/bin/python
import json, sys, glob, collections
prop = sys.argv[1]
g = collections.defaultdict(list)
for f in sorted(glob.glob('/verif/replays/%s/*.json' % prop)):
    v = json.load(open(f))
    g[(v['api'], v['check'])].append(v)
for (api, chk), vs in sorted(g.items()):
    print('%-28s %-40s classes=%d count=%d' % (api, chk, len(vs), sum(v['count'] for v in vs)))
    tags = collections.Counter(t for v in vs for t in v['tags'])
    print('     tags:', dict(tags))
    w = vs[0]['witnesses'][0]
    print('     e.g.:', json.dumps(w['detail'])[:700])
