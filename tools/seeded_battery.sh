#!/bin/bash
# tools/seeded_battery.sh [tier] [jobs] : every sub-agent-written seeded change against the check(s) that are recorded to catch it
# (meta.json "caught_by", default: its own property); scratch worktrees under /tmp/mw, removed afterwards.  R-* (reverse fixes): tools/revert_battery.sh
tier=${1:-quick}; jobs=${2:-4}
cd /verif
ls seeded | grep -v '^R-' | while read sid; do
  # (a change recorded as NOT caught - judged outside the statement, see its meta.json and DESIGN 8.5 - is listed, not run)
  if /venv/bin/python -c "import json,sys;sys.exit(0 if json.load(open('seeded/$sid/meta.json')).get('not_caught') else 1)"; then echo "RESULT $sid: recorded as not caught (see meta.json)" >&2; continue; fi
  props=$(/venv/bin/python -c "import json;m=json.load(open('seeded/$sid/meta.json'));print(' '.join(m.get('caught_by',[m['property']])))")
  # (a seed whose meta.json says "tier": "thorough" needs sizes that only the thorough tier drives)
  t=$(/venv/bin/python -c "import json;m=json.load(open('seeded/$sid/meta.json'));print(m.get('tier','$tier'))")
  echo "$props $t /verif/seeded/$sid"
done | xargs -P $jobs -L 1 bash -c 'p=$0; t=$1; s=${@: -1}; tools/mutant_eval.sh $p $s $t 2>&1 | grep RESULT'
