#!/bin/bash
# tools/seeded_battery.sh [tier] [jobs] : every seeded change against the check of its property (scratch worktrees under /tmp/mw, removed afterwards)
tier=${1:-quick}; jobs=${2:-4}
cd /verif
ls seeded | while read sid; do
  prop=$(/venv/bin/python -c "import json;print(json.load(open('seeded/$sid/meta.json'))['property'])")
  echo "$prop seeded/$sid"
done | xargs -P $jobs -L 1 bash -c 'tools/mutant_eval.sh $0 $1 '"$tier"' 2>&1 | grep RESULT'
