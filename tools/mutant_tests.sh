#!/bin/bash
# tools/mutant_tests.sh <seed_id> : run the repository's own suite on HEAD + seeded patch (scratch worktree), record the summary
sid=$1; dir=/verif/seeded/$sid; wt=/tmp/mw/tests_$sid
export OMP_NUM_THREADS=1 OPENBLAS_NUM_THREADS=1
git -C /repo worktree remove --force $wt >/dev/null 2>&1
git -C /repo worktree add -q --detach $wt HEAD || exit 9
git -C $wt apply $dir/patch.diff || { echo "patch does not apply" > $dir/tests.log; git -C /repo worktree remove --force $wt; exit 8; }
( cd $wt && PYTHONPATH=$wt timeout 3000 /venv/bin/python -m pytest -q -p no:cacheprovider -n ${NPROC:-6} --timeout=900 tests 2>&1 | tail -8 ) > $dir/tests.log
git -C /repo worktree remove --force $wt
tail -1 $dir/tests.log
