#!/venv/bin/python
"""tools/mutate.py : sensitivity sweep of the checks with small syntactic mutants of the library (own mutation tool: no
mutation framework is installed).  For every sampled mutant the mutated file is written into a scratch copy of scikit_tt
(outside /repo and /verif, removed afterwards) and the quick check(s) of the property the mutated function is anchored in
are run with --repo <scratch>.  A surviving mutant is a lead to look at (many are equivalent or outside every property:
progress output, error messages, dead branches) - it is NOT evidence by itself; leads that turned out to be real gaps are
recorded in DESIGN.md section 8.7.

usage: tools/mutate.py <out.jsonl> [--per-file N] [--jobs J] [--seed S] [--files a.py,b.py] [--scale X]
"""
import argparse
import ast
import concurrent.futures
import copy
import json
import os
import random
import shutil
import subprocess
import sys
import tempfile

REPO = '/repo'
VERIF = '/verif'

TT_MAP = {
    'C01': ['__add__', '__sub__', '__mul__', '__rmul__', '__matmul__', 'dot', 'transpose', 'conj', 'copy', 'full', 'matricize', 'element', 'norm',
            'residual_error', 'zeros', 'ones', 'eye', 'unit', 'uniform', 'isoperator', '__init__'],
    'C02': ['tensordot', 'rank_tensordot', 'concatenate', 'rank_transpose', 'diag', 'squeeze', 'tt2qtt', 'qtt2tt', 'build_core', 'build_core_vector'],
    'C03': ['ortho_left', 'ortho_right', 'ortho'],
    'C04': ['ortho_left', 'ortho_right', 'ortho', '__init__'],
    'C05': ['svd', 'pinv'],
}


def props_for(relpath, func):
    f = os.path.basename(relpath)
    if f == 'tensor_train.py':
        out = [p for p, names in TT_MAP.items() if func in names]
        return out
    if f == 'sle.py':
        return ['C07']
    if f == 'evp.py':
        return ['C08']
    if f == 'ode.py':
        if 'splitting' in func:
            return ['C10']
        if 'tdvp' in func or 'krylov' in func:
            return ['C11']
        if func.startswith('tjm'):
            return []
        return ['C09']
    if f in ('slim.py', 'ulam.py'):
        return ['C12']
    if f == 'models.py':
        return ['C13']
    if f == 'transform.py':
        if func in ('basis_decomposition', 'coordinate_major', 'function_major', 'gram', 'hocur') or func.startswith('__hocur') or func.startswith('__function') or func.startswith('__coordinate') or func.startswith('__basis'):
            return ['C15']
        return ['C14']
    if f == 'regression.py':
        return ['C16']
    if f == 'tdmd.py':
        return ['C17']
    if f == 'tedmd.py':
        return ['C18']
    if f == 'tgedmd.py':
        return ['C19']
    if f == 'quantum_computation.py':
        return ['C20'] if func == 'sampling' else []
    if f == 'utils.py':
        return ['C18', 'C19'] if func == 'truncated_svd' else []
    return []


FILES = ['scikit_tt/tensor_train.py', 'scikit_tt/solvers/sle.py', 'scikit_tt/solvers/evp.py', 'scikit_tt/solvers/ode.py', 'scikit_tt/slim.py',
         'scikit_tt/data_driven/ulam.py', 'scikit_tt/models.py', 'scikit_tt/data_driven/transform.py', 'scikit_tt/data_driven/regression.py',
         'scikit_tt/data_driven/tdmd.py', 'scikit_tt/data_driven/tedmd.py', 'scikit_tt/data_driven/tgedmd.py', 'scikit_tt/quantum_computation.py', 'scikit_tt/utils.py']

SWAP_BIN = {ast.Add: ast.Sub, ast.Sub: ast.Add}
SWAP_CMP = {ast.Lt: ast.LtE, ast.LtE: ast.Lt, ast.Gt: ast.GtE, ast.GtE: ast.Gt, ast.Eq: ast.NotEq, ast.NotEq: ast.Eq}


class Finder(ast.NodeVisitor):
    """collect mutation sites: (kind, node id) with the enclosing function name"""

    def __init__(self):
        self.sites = []
        self.stack = []
        self.cls = []

    def visit_ClassDef(self, node):
        self.cls.append(node.name)
        self.generic_visit(node)
        self.cls.pop()

    def visit_FunctionDef(self, node):
        self.stack.append(node.name)
        # skip the docstring
        body = node.body
        start = 1 if body and isinstance(body[0], ast.Expr) and isinstance(getattr(body[0], 'value', None), ast.Constant) and isinstance(body[0].value.value, str) else 0
        for d in node.args.defaults + node.args.kw_defaults:
            pass
        for st in body[start:]:
            self.visit(st)
        self.stack.pop()

    def _add(self, kind, node):
        if self.stack:
            func = self.stack[0]
            self.sites.append((kind, node, func, getattr(node, 'lineno', 0)))

    def visit_BinOp(self, node):
        if type(node.op) in SWAP_BIN:
            self._add('binop', node)
        self.generic_visit(node)

    def visit_Compare(self, node):
        if len(node.ops) == 1 and type(node.ops[0]) in SWAP_CMP:
            self._add('cmp', node)
        self.generic_visit(node)

    def visit_Constant(self, node):
        if isinstance(node.value, bool):
            self._add('bool', node)
        elif isinstance(node.value, int) and 0 <= node.value <= 3:
            self._add('int+', node)
            if node.value > 0:
                self._add('int-', node)

    def visit_Call(self, node):
        f = node.func
        if isinstance(f, ast.Attribute) and f.attr == 'copy' and not node.args and not node.keywords:
            self._add('dropcopy', node)
        if isinstance(f, ast.Attribute) and f.attr in ('conj', 'conjugate') and len(node.args) == 1 and isinstance(f.value, ast.Name) and f.value.id == 'np':
            self._add('dropconj', node)
        if isinstance(f, ast.Attribute) and f.attr in ('conj', 'conjugate') and not node.args and not node.keywords:
            self._add('dropconjm', node)
        self.generic_visit(node)

    def visit_UnaryOp(self, node):
        if isinstance(node.op, ast.USub) and not isinstance(node.operand, ast.Constant):
            self._add('dropneg', node)
        self.generic_visit(node)

    def visit_Attribute(self, node):
        if node.attr == 'T':
            self._add('dropT', node)
        self.generic_visit(node)


def apply_mutation(tree, index):
    """return (mutated source, description) for the index-th site of a fresh Finder pass over `tree` (a deep copy)"""
    t = copy.deepcopy(tree)
    fd = Finder()
    fd.visit(t)
    kind, node, func, line = fd.sites[index]

    class Rep(ast.NodeTransformer):
        def generic_visit(self, n):
            n = super().generic_visit(n)
            if n is node:
                if kind == 'binop':
                    n.op = SWAP_BIN[type(n.op)]()
                elif kind == 'cmp':
                    n.ops = [SWAP_CMP[type(n.ops[0])]()]
                elif kind == 'bool':
                    return ast.copy_location(ast.Constant(value=not n.value), n)
                elif kind == 'int+':
                    return ast.copy_location(ast.Constant(value=n.value + 1), n)
                elif kind == 'int-':
                    return ast.copy_location(ast.Constant(value=n.value - 1), n)
                elif kind in ('dropcopy', 'dropconjm'):
                    return n.func.value
                elif kind == 'dropconj':
                    return n.args[0]
                elif kind == 'dropneg':
                    return n.operand
                elif kind == 'dropT':
                    return n.value
            return n
    t = Rep().visit(t)
    ast.fix_missing_locations(t)
    return ast.unparse(t), {'kind': kind, 'func': func, 'line': line}


def sites_of(path):
    src = open(path).read()
    tree = ast.parse(src)
    fd = Finder()
    fd.visit(tree)
    return tree, [(k, f, l) for (k, n, f, l) in fd.sites]


def run_one(job):
    rel, index, desc, props, scale = job
    work = tempfile.mkdtemp(prefix='mut_', dir='/tmp')
    try:
        shutil.copytree(os.path.join(REPO, 'scikit_tt'), os.path.join(work, 'scikit_tt'), ignore=shutil.ignore_patterns('__pycache__'))
        tree = ast.parse(open(os.path.join(REPO, rel)).read())
        src, d2 = apply_mutation(tree, index)
        with open(os.path.join(work, rel), 'w') as f:
            f.write(src)
        env = dict(os.environ, VERIF_QUICK_SCALE=str(scale), VERIF_SCRATCH=work)
        res = {}
        for p in props:
            try:
                r = subprocess.run([os.path.join(VERIF, 'check'), p, '--tier', 'quick', '--repo', work, '--no-evidence'], cwd=VERIF, env=env, capture_output=True, text=True, timeout=1500)
                nv = sum(1 for ln in r.stdout.splitlines() if ln.startswith('VIOLATION'))
                first = next((ln.strip()[:200] for ln in r.stdout.splitlines() if ln.startswith('  -> ')), '')
                res[p] = {'exit': r.returncode, 'violations': nv, 'first': first}
            except subprocess.TimeoutExpired:
                res[p] = {'exit': 'timeout', 'violations': 0, 'first': ''}
            if res[p]['exit'] not in (0,):
                break  # killed
        killed = any(v['exit'] != 0 for v in res.values())
        return dict(desc, file=rel, index=index, props=props, result=res, killed=killed)
    finally:
        shutil.rmtree(work, ignore_errors=True)


def main():
    ap = argparse.ArgumentParser()
    ap.add_argument('out')
    ap.add_argument('--per-file', type=int, default=40)
    ap.add_argument('--jobs', type=int, default=4)
    ap.add_argument('--seed', type=int, default=0)
    ap.add_argument('--files', default='')
    ap.add_argument('--scale', type=float, default=1.0)
    ap.add_argument('--funcs', default='')
    a = ap.parse_args()
    rnd = random.Random(a.seed)
    files = [f for f in FILES if not a.files or os.path.basename(f) in a.files.split(',')]
    jobs = []
    for rel in files:
        tree, sites = sites_of(os.path.join(REPO, rel))
        cand = []
        for i, (k, func, line) in enumerate(sites):
            props = props_for(rel, func)
            if a.funcs and func not in a.funcs.split(','):
                continue
            if props:
                cand.append((rel, i, {'kind': k, 'func': func, 'line': line}, props, a.scale))
        rnd.shuffle(cand)
        jobs += cand[:a.per_file]
    print('mutants:', len(jobs), 'from', len(files), 'files')
    done = 0
    with open(a.out, 'a') as out, concurrent.futures.ThreadPoolExecutor(max_workers=a.jobs) as ex:
        for r in ex.map(run_one, jobs):
            out.write(json.dumps(r) + '\n')
            out.flush()
            done += 1
            if not r['killed']:
                print('SURVIVED %s:%s %s line %d  (checks %s)' % (r['file'], r['func'], r['kind'], r['line'], ','.join(r['props'])))
    print('done', done)


if __name__ == '__main__':
    sys.exit(main())
