NOTE = ('trusted base: NumPy/SciPy dense linear algebra as reference, the harness dense model (vt/dense.py), CPython; '
        'verdict covers only the executions produced (seeded generators + enumerations, sizes <= 2^17 dense entries)')
TABLE = {
 'C01': {'text': 'every value-level TT operation is executed on thousands of generated operands (orders 1-5, size-1 modes, rank-1 bonds, over-parameterised ranks, real/complex/mixed) with a postcondition contract on the real method comparing the result with NumPy on the dense value of the pre-call snapshot; exploration is the honest level: reach is bounded by the generated shape classes',
         'note': NOTE, 'technique': 'runtime contracts (postconditions vs dense reference) on the real TT methods under generated workloads'},
}
NOT_YET = {}
