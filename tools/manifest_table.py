NOTE = ('trusted base: NumPy/SciPy dense linear algebra as reference, the harness dense model (vt/dense.py), CPython; '
        'verdict covers only the executions produced (seeded generators + enumerations, sizes <= 2^17 dense entries)')
TABLE = {
 'C01': {'text': 'every value-level TT operation is executed on thousands of generated operands (orders 1-5, size-1 modes, rank-1 bonds, over-parameterised ranks, real/complex/mixed) with a postcondition contract on the real method comparing the result with NumPy on the dense value of the pre-call snapshot; exploration is the honest level: reach is bounded by the generated shape classes',
         'note': NOTE, 'technique': 'runtime contracts (postconditions vs dense reference) on the real TT methods under generated workloads'},
}
TABLE.update({
 'C02': {'text': 'contracts on tensordot (all four modes x every admissible axis count incl. complete contractions, enumerated), rank_tensordot, concatenate, rank_transpose, diag (all mode subsets), squeeze (all placements of mode-free cores), tt2qtt/qtt2tt (+ round trip) and build_core(_vector) compare the dense value and the dims of each real result with an einsum/reshape definition evaluated on the pre-call snapshot',
         'note': NOTE, 'technique': 'runtime contracts vs einsum/reshape reference, enumerated + random shape classes'},
 'C03': {'text': 'contract on the real ortho_left/ortho_right/ortho: dense value preserved, every processed core an isometry, ranks not increased, cores outside the requested range bitwise unchanged, metadata consistent; all (start,end) pairs for orders <= 5, rank-deficient / over-parameterised / complex / boundary-rank inputs, and the gesvd fallback branch driven by a LinAlgError failpoint at the LAPACK boundary',
         'note': NOTE, 'technique': 'runtime contracts on in-place sweeps + failpoint injection at the SVD boundary'},
 'C04': {'text': 'contract on TT(ndarray, threshold, max_rank) and on the truncating orthonormalisations: rank bound always, Frobenius error against the root-sum-square of the optimal unfolding errors (computed with numpy.linalg.svd on the original dense tensor) whenever the monitor measures the precondition (opposite side orthonormal), threshold rule with the number of discarded directions recomputed from the result ranks',
         'note': NOTE, 'technique': 'runtime contracts with error bounds from dense unfolding spectra'},
 'C05': {'text': 'contract on the real svd/pinv at every split index: orthonormal factors, singular values equal to numpy.linalg.svd of the unfolding, reconstruction, pinv equal to conj(pinv(unfolding))^T, input bitwise unchanged; truncating calls are decided only when the cut lies in a measured spectral gap (else counted as skipped)',
         'note': NOTE, 'technique': 'runtime contracts vs numpy.linalg.svd/pinv of the dense unfolding'},
})
TABLE.update({
 'C06': {'text': 'call histories over a pool of live TT objects (random 4-16 step histories and an enumeration producer x in-place consumer x shape class with rank-1 bonds / size-1 modes at every position): after every step every live object except the declared in-place target is compared bitwise with its snapshot; argument-immutability contracts on every monitored routine; LAPACK-boundary observer reports a really overwritten buffer that is shared with another live object at the moment it happens; representation invariant on every returned object and through icontract.invariant on the class',
         'note': NOTE + '; LAPACK in-place behaviour is observed (buffer compared before/after), not assumed', 'technique': 'shadow-pool history monitor + argument-immutability contracts + LAPACK alias observer + class invariant'},
})
NOT_YET = {}
