NOTE = ('trusted base: NumPy/SciPy dense linear algebra as reference, the harness dense model (vt/dense.py), CPython; '
        'verdict covers only the executions produced (seeded generators + enumerations, sizes <= 2^17 dense entries)')
TABLE = {
 'C01': {'text': 'every value-level TT operation is executed on thousands of generated operands (orders 1-5, size-1 modes, rank-1 bonds, over-parameterised ranks, real/complex/mixed) with a postcondition contract on the real method comparing the result with NumPy on the dense value of the pre-call snapshot; exploration is the honest level: reach is bounded by the generated shape classes',
         'note': NOTE, 'technique': 'runtime contracts (postconditions vs dense reference) on the real TT methods under generated workloads'},
}
TABLE.update({
 'C02': {'text': 'contracts on tensordot (all four modes x every admissible axis count incl. complete contractions, enumerated), rank_tensordot, concatenate, rank_transpose, diag (all mode subsets), squeeze (all placements of mode-free cores), tt2qtt/qtt2tt (+ round trip) and build_core(_vector) compare the dense value and the dims of each real result with an einsum/reshape definition evaluated on the pre-call snapshot',
         'note': NOTE, 'technique': 'runtime contracts vs einsum/reshape reference, enumerated + random shape classes'},
 'C03': {'text': 'contract on the real ortho_left/ortho_right/ortho: dense value preserved, every processed core an isometry, ranks not increased, cores outside the requested range bitwise unchanged, metadata consistent; all (start,end) pairs for orders <= 5, rank-deficient / over-parameterised / complex / boundary-rank inputs, and the gesvd fallback branch driven by a LinAlgError failpoint at the LAPACK boundary',
         'note': NOTE, 'technique': 'runtime contracts on in-place sweeps + failpoint injection at the SVD boundary'},
 'C04': {'text': 'contract on TT(ndarray, threshold, max_rank) and on the truncating orthonormalisations: rank bound always, Frobenius error against the root-sum-square of the optimal unfolding errors (computed with numpy.linalg.svd on the original dense tensor) whenever the monitor measures the precondition (opposite side orthonormal), threshold rule with the number of discarded directions recomputed from the result ranks',
         'note': NOTE, 'technique': 'runtime contracts with error bounds from dense unfolding spectra'},
 'C05': {'text': 'contract on the real svd/pinv at every split index: orthonormal factors, singular values equal to numpy.linalg.svd of the unfolding, reconstruction, pinv equal to conj(pinv(unfolding))^T, input bitwise unchanged; truncating calls are decided only when the cut lies in a measured spectral gap (else counted as skipped)',
         'note': NOTE, 'technique': 'runtime contracts vs numpy.linalg.svd/pinv of the dense unfolding'},
})
TABLE.update({
 'C06': {'text': 'call histories over a pool of live TT objects (random 4-16 step histories and an enumeration producer x in-place consumer x shape class with rank-1 bonds / size-1 modes at every position): after every step every live object except the declared in-place target is compared bitwise with its snapshot; argument-immutability contracts on every monitored routine; LAPACK-boundary observer reports a really overwritten buffer that is shared with another live object at the moment it happens; representation invariant on every returned object and through icontract.invariant on the class',
         'note': NOTE + '; LAPACK in-place behaviour is observed (buffer compared before/after), not assumed', 'technique': 'shadow-pool history monitor + argument-immutability contracts + LAPACK alias observer + class invariant'},
})
TABLE.update({
 'C07': {'text': 'hooks on the module-private micro-system constructors compare, at every micro-step of every solver call, the assembled micro matrix / right-hand side with P^H A P / P^H b computed from the live iterate (environment oracle); the recorded sequence of optimal micro energies must be non-increasing and the sites visited in the documented order (trace checker); an end-to-end contract on sle.als/mals checks A-norm error vs guess, dims, rank behaviour; the driver adds the multi-call clauses (repeats 1,2,3; exact solution as fixed point; maximal-rank guess exact after one sweep) on generated Hermitian positive-definite operators (real/complex, orders 1-4)',
         'note': NOTE + '; guesses have generic cores with ranks <= maximal (else projected systems are singular); MALS descent asserted only while truncation is ineffective', 'technique': 'invariant at a hook (environment oracle) + offline energy-trace checker + solver contracts'},
 'C08': {'text': 'environment oracle on evp.__construct_micro_matrices at every micro-step (projected operator, projected right-hand operator, deflation terms, Hermitian-ness) from the live iterate; contracts on evp.als / power_method (reported value == Rayleigh quotient of the returned tensor, unit norm, <= lambda_max); driver clauses: repeats monotone towards sigma, fixed point on interacting operators whose dominant eigentensor has rank 1-2 (right-orthonormal guess), maximal-rank guess => exact extremal pair, deflation == explicitly shifted operator, inverse iteration converges to the pair nearest sigma',
         'note': NOTE + '; eigs only where ARPACK preconditions hold; fixed-point guesses right-orthonormalised (the gauge the solver and all of its callers use); eigenvector comparisons only with a measured spectral gap', 'technique': 'invariant at a hook (projected pencil oracle) + solver contracts vs dense eigh'},
})
TABLE.update({
 'C09': {'text': 'contracts on explicit_euler / implicit_euler / trapezoidal_rule / hod compare every element of the returned trajectory with the dense recurrence of the scheme applied to the library\'s own previous element(s) (varying step lists, ALS/MALS x solve/lu inner solvers, HOD orders 2-6 with and without previous_value, normalisation 0/1/2 incl. Markov generators for the 1-norm), list shape and unit norms; contracts on the three error estimators vs the dense relative defects on arbitrary state lists; trace checker on adaptive_step_size (strictly increasing accepted times <= end time, one state per time point, inputs unchanged)',
         'note': NOTE + '; recurrences asserted only where the monitor measures representable ranks (maximal-rank guesses, ineffective truncation) and ||hA|| <= 0.5', 'technique': 'runtime contracts vs dense one-step recurrences + time-trace checker'},
})
TABLE.update({
 'C10': {'text': 'contract on the four splitting integrators: every step of the returned trajectory equals the dense product of scipy.linalg.expm factors of the even- and odd-bond generators assembled independently from the components (coefficient tables typed from the literature), norm conserved for skew-Hermitian generators, unit norm with normalisation, list shape, inputs unchanged; driver-level observed-order clause log2(err(h)/err(h/2)) against expm(T A) x0 on generators scaled to unit norm (>= p-0.5 for p=1,2,4; >= 5.5 for Kahan-Li), cases outside the asymptotic window are skipped and counted',
         'note': NOTE + '; chains 2-5, local dims 1-3, interaction ranks 1-2, homogeneous and site-dependent components', 'technique': 'runtime contract vs dense composition of matrix exponentials + observed convergence order'},
 'C11': {'text': 'contracts on tdvp1site/tdvp2site/tdvp/krylov vs expm(-i h H) at maximal ranks (right-orthonormal initial states, measured), list shape, inputs unchanged; trace checker: norm and <x|H|x> of the live iterate after every micro-step of the one-site scheme at every rank, sweep order; environment oracle on the micro matrices as called from the integrators; the hybrid driver fails on every input (known finding, mechanism-keyed)',
         'note': NOTE + '; initial states right-orthonormalised (the gauge the integrators assume); Krylov from unit-norm states with dimension = full space', 'technique': 'runtime contracts vs dense matrix exponential + conserved-quantity trace checker at a hook'},
})
TABLE.update({
 'C12': {'text': 'contracts on slim_mme / slim_mme_hom compare the matricised result with a state-enumeration construction of the master-equation generator (open/cyclic, equal/unequal cells, 0-3 reactions per cell and bond, thresholds 0/1e-12 => different bond ranks), column sums, off-diagonal signs; contracts on ulam_2d/3d compare with a direct histogram of the transitions (unsampled / partly / fully sampled boxes)',
         'note': NOTE, 'technique': 'runtime contracts vs state-enumeration / histogram reference'},
 'C13': {'text': 'contract per bundled model evaluated over the parameter grids (all sizes incl. n=1,2 and cyclic=False) and random continuous parameters: Markov generator tests (dense; column sums in TT form and 10^4 sampled off-diagonals for large state spaces), unitarity of every QFT/iQFT gate group and product == bit-reversed DFT / conjugate, full adders and Shor oracle unitary (+ oracle semantics), exciton/Ising formulas, FPU/Kuramoto right-hand sides at random states, fractals vs Kronecker powers of independently specified generators',
         'note': NOTE, 'technique': 'runtime contracts on model constructors vs independent dense definitions'},
 'C14': {'text': 'icontract.ensure postconditions (record-and-return) on partial/partial2/gradient/hessian/__call__ of every basis-function class: complex-step derivative of the object\'s own evaluation (central differences for B-splines), second derivative via complex step of partial and second differences of the evaluation, zero in foreign coordinates, array == point-wise evaluation; armed in a direct workload over all families/parameters and during the C15/C16/C18/C19 workloads',
         'note': NOTE + '; partial2/hessian of PeriodicGauss and B-spline raise NotImplementedError by design and are not asserted', 'technique': 'icontract postconditions vs complex-step differentiation'},
 'C15': {'text': 'contracts on basis_decomposition / coordinate_major / function_major (incl. single_core for every core, add_one) and gram against an explicit loop over multi-indices and snapshots; hocur must reproduce the tensor whenever requested and returned ranks reach the measured true ranks (tolerance tied to the smallest retained singular value)',
         'note': NOTE, 'technique': 'runtime contracts vs explicit product-tensor loop'},
 'C16': {'text': 'contracts on mandy_cm/mandy_fm vs y*pinv(Psi) on the dense transformed data matrix (cut must lie in a measured gap of every unfolding spectrum), mandy_kb vs fitted values of the pseudoinverse solution (undecidable conditioning band skipped), ARR: residual trace over micro-steps non-increasing (rounding noise of nearly singular micro problems measured), ranks of the guess kept, guess unchanged; driver clause residual(repeats 1,2,3) non-increasing',
         'note': NOTE, 'technique': 'runtime contracts vs numpy pinv/lstsq + residual trace checker at a hook'},
 'C17': {'text': 'contract on tdmd_exact/tdmd_standard vs SVD-based matrix DMD of the unfolded snapshots: eigenvalue multisets, exact modes are eigenvectors of Y X^+, standard modes are projected modes, returned TT consistent, inputs unchanged; cut in a measured spectral gap',
         'note': NOTE, 'technique': 'runtime contracts vs NumPy DMD'},
 'C18': {'text': 'contract on amuset_hosvd/amuset_hocur evaluated for every index-set pair of a call against dense EDMD pinv(Psi_x^T) Psi_y^T with the library\'s relative cut (eigenvalues incl. zero padding, order by distance to 1, eigen-equation for real spectra), decomposition exactness measured (HOSVD cut ineffective / HOCUR reproduced); driver clause: batch call == single calls element-wise and distinct result objects; M3 on every returned TT',
         'note': NOTE, 'technique': 'runtime contracts vs dense EDMD + batch/single differential monitor'},
})
TABLE.update({
 'C19': {'text': 'contracts on generator_on_product / generator_on_product_reversible against the Kolmogorov generator applied to the product function with gradient by complex-step differentiation of the product and Hessian by central differences of that gradient (independent of the library product rule and of the partial/gradient/hessian methods); contract on tgedmd.amuset_hosvd against the dense projected generator V^T W^(1/2) (L Psi)^T U S^-1 resp. the reversible gradient form from a NumPy SVD with the same cut (reversible / non-reversible, reweighting on/off, square and non-square diffusion, all return options)',
         'note': NOTE + '; decompositions must be exact up to numerically zero directions (measured), ill-conditioned eigenproblems skipped', 'technique': 'runtime contracts vs complex-step generator oracle and dense gEDMD'},
 'C20': {'text': 'a probe on numpy.random.rand captures the uniform variates the sampler actually drew; the contract replays sequential inverse-CDF sampling on the dense Born marginal (unmeasured sites traced out) with those variates and requires the returned (samples, frequencies) to be exactly the predicted ones; distinct bit strings, frequencies sum to one, chi-square distance to the exact marginal for large sample counts, state unchanged; every non-empty subset of measured sites for <= 4 qubits, random subsets up to 6 qubits, ranks 1-4, complex amplitudes, structured states with zero-probability outcomes',
         'note': NOTE + '; matplotlib is absent: the harness registers an empty stub module before importing quantum_computation (no repository change); cases with a variate within 1e-9 of a decision boundary are skipped', 'technique': 'runtime contract with captured randomness vs dense inverse-CDF oracle'},
})
NOT_YET = {}


# additions of the second build session (DESIGN.md section 8.5)
COMMON = (' Results are judged against the arguments as they were at call entry (arrays and list-valued options are frozen by the probe layer; '
          'a call that rewrites them is reported); operands include trains with a history of library operations, aliased cores and integer dtype; '
          'both tiers are seeded (VERIF_SEED) and every shard runs under an address-space cap.')
EXTRA = {
 'C03': ' Trains with one ndarray object at several positions (rank-one / homogeneous chains) are driven through full and partial sweeps.',
 'C04': ' Per-bond max_rank lists must not be rewritten by the call (the request at call time is what the bounds are judged against).',
 'C05': ' svd/pinv with a sweep switched off are decided on input that is in exactly the gauge of the omitted sweep (measured); input-unchanged is reported under C05 itself.',
 'C07': ' max_rank is crossed with threshold in {0, 1e-12, default}; second calls on the same operator/guess objects with another (also in-place changed) right-hand side.',
 'C08': ' Options real / conv_eps, 1-3 deflation tensors of different ranks, size-1 modes, and a second target solved on the same objects.',
 'C09': ' Step-size lists with recurring values, adaptive runs whose first step exceeds the end time, precomputed op_hod, and second calls on the same operator object with another order / step size / in-place rescaled operator.',
 'C10': ' The same component arrays and initial state serve several calls (other scheme / step size); tmp_rank.',
 'C11': ' Order-1 trains and size-1 modes included; second calls with another step size; Krylov with normalisation.',
 'C12': ' Piecewise-homogeneous chains (equal lists on neighbouring cells/bonds with defect cells/bonds, orders up to 6), small integer dtypes of Ulam tables, second calls on the same lists.',
 'C13': ' Every constructor is also called for a neighbouring parameter set before and after the enumerated one (state kept between calls); chains up to order 12 in TT form.',
 'C14': ' Operations are called in random order on pristine copies of the function object; arrays handed out earlier must stay bitwise unchanged by later calls; evaluation points must not be modified.',
 'C15': ' Lattice data / exact zeros / integer-typed / tiny-scale data; HOCUR with list-valued ranks reused across data sets (list must stay untouched); give-ups of the fixed initial column choice on an all-zero block are recognised from a hook and not asserted.',
 'C16': ' The guess-unchanged clause is reported under C16 itself.',
 'C17': ' Each orthonormalisation-flag combination is driven on input that is in exactly the gauge of the omitted sweep only.',
 'C18': ' Position-wise ordering by the distance of the complex eigenvalue to 1; batches whose pairs share / repeat / exchange index sets; HOCUR batch == single calls.',
 'C19': ' Lattice data and data with exact zeros; second call on the same arrays with the other generator form / weighting; output_freq, max_rank, several thresholds.',
 'C20': ' Call sequences on one live state with single-qubit gates applied in place between samplings.',
}
EXTRA2 = {'C01': ' Exactly-zero / unit / all-ones / {-1,0,1} tensors are included (structured data).',
 'C02': ' tensordot: number of axes from every NumPy integer type, a train contracted with itself, open boundary ranks; squeeze on blocks with open boundary ranks.',
 'C03': ' Extreme-scale cores (squares outside the normal floating-point range), nearly canonical operand histories.',
 'C04': ' Trains with shared core objects (product states, identical end caps, Fortran order) in the truncation workload.',
 'C05': ' Unbalanced trains (one mode with 300-3000 points; generic / rank-deficient / graded big core); nearly canonical histories.',
 'C06': ' Constructors (eye / zeros / ones / unit / uniform) are producers in the pool histories; a constructor result must be a new object sharing no core with any live object.',
 'C07': ' Exactly representable problems (identity / power-of-two diagonal operators, unit-vector / GHZ right-hand sides: exact ties at every rank cut) and graded solutions (correction of relative size 1e-6.5..1e-3.5).',
 'C08': ' Generalised problems whose two operators have different dtypes, every micro solver in turn; eigs refusals are ARPACK / LinAlg errors only and decided eigs runs are a required counter.',
 'C09': ' Graded step lists (consecutive steps differing by 1e-7..1e-2.5 relative).',
 'C10': ' Nearly homogeneous site-dependent component lists (weak disorder / impurity of relative size 1e-7..1e-5).',
 'C11': ' (Nearly) uncoupled operators, weakly entangled maximal-rank states, the same evolution in other units (H scaled, step size scaled inversely), runs of more than 1000 steps.',
 'C12': ' Rates in other units (1e-16..1e12), slow single bonds, entry-wise relative accuracy of off-diagonal entries; unsigned and narrow integer state numbers.',
 'C13': ' qft / iqft of up to 12 qubits in random order first in every fresh process (TT-action oracle beyond 8 qubits); related constructors called one after the other with results changed in place in between; primaries of independent dtypes, one object for several primaries.',
 'C14': ' Parameters as NumPy scalars (np.float64 / np.int64 ...).',
 'C15': " Type-switching scalar functions, point-only user functions, boolean-valued modes, shared function objects; a HOCUR result with ranks below the true ranks is skipped only if the library's own column search (hooked) shows the sampled columns were deficient.", 'C16': ' Negligible cut-offs incl. rcond = 0 exactly (decided where every micro problem has full column rank).',
 'C17': ' Tall grids (300-2600 points), trains whose cores have different dtypes, strongly damped modes (eigenvalue ratio 1e-11..1e-8.5).',
 'C18': ' Boolean-mask and narrow-integer index sets, (nearly) reversible data.',
 'C19': ' Function objects shared between modes, 1025-6500 snapshots, poorly conditioned bases (condition numbers up to 1e9).',
 'C20': ' Textbook matrix-product states (GHZ copy tensors with single-qubit gates), registers of up to 72 qubits decided by a transfer-matrix oracle.'}
EXTRA3 = {'C01': ' transpose with every form of the cores argument; uniform() with narrow NumPy integer dimensions / ranks whose product leaves the type.',
 'C02': ' diag on trains of tiny / huge / uneven magnitude.',
 'C03': ' Sweeps after the owner rescaled earlier results in place; methods called positionally in the recorded parameter order.',
 'C04': ' Histories where the owner assigns new values to a core of a canonical train (any cached structural knowledge is stale); the zero tensor.',
 'C05': ' The train left by an overwriting svd / pinv is split again.',
 'C07': ' Exactness from maximal-rank structured guesses (Kronecker operators with unequal mode sizes).',
 'C08': ' One to three iterations of the inverse power iteration (far from convergence); deflation with generalised problems.',
 'C09': ' Time grids whose first step is exactly zero (ALS).',
 'C11': ' Zero-padded maximal-rank product states; Krylov on states of any norm.',
 'C12': ' Null reactions with rates up to 1e15 beside ordinary ones; Ulam grids of up to 1400 boxes with near and far transitions.',
 'C14': ' Function objects re-tuned through their attributes between calls.',
 'C15': " HOCUR: the candidate submatrix of every bond is observed at the library's extraction helper (the column search must find the rank of ALL candidates); repeated leading snapshots with ranks equal to the true ranks; one-variable user functions written with reductions; single-mode basis lists.",
 'C18': ' Single-mode basis lists; an AMUSEt-HOCUR call whose cross approximation was decided wrong is reported here as well.',
 'C20': ' Entangled qubits separated by 64-80 basis-state qubits; 560-700 measured qubits with about one bit of entropy each (chains of crossing entangled pairs).'}
EXTRA4 = {'C01': ' Positions counted from the back in unit().',
 'C02': ' In-place variants refused for a rank / dimension mismatch must leave the operand alone (then ordinary use); modes counted from the back in diag().',
 'C03': ' Sweeps refused for an inadmissible option value must leave the represented tensor alone (then ordinary use).',
 'C04': ' Truncating sweeps refused for an inadmissible entry of a per-bond rank list (right of truncating bonds) must not have truncated; the corrected call follows.',
 'C05': ' Split positions outside the train (refused, not overwriting); single-precision / complex calls first in the process.',
 'C06': ' One-core systems with the lu micro solver.',
 'C07': ' Exactness clauses bound the relative forward error by 300 eps cond(A) (calibrated: accuracy histogram in the evidence).',
 'C08': ' Inverse power iteration with the computed eigenvalue as shift.',
 'C09': ' Caller-edited identity operators before integrator calls; repeats=0 (unit-norm clause only).',
 'C10': ' Chains of equal sites with one isolated modification in one component list, order up to 6.',
 'C11': ' Micro systems of 256-512 unknowns with long steps.',
 'C12': ' Ulam tables with 2^15 .. 3*2^16 columns.',
 'C13': ' Parameters held in mutable numeric objects (0-d arrays), the same objects asked again.',
 'C16': ' Kernel-based MANDy on noise-free model data: fitted values as accurate as a backward-stable solve.',
 'C17': ' Real oscillating data (complex mode coefficients); large-amplitude trains in right-orthonormal form.',
 'C18': ' Linear-functional user functions on square data (HOSVD variant).',
 'C19': ' Integer count weights (int64 / uint32 / uint64).'}
EXTRA5 = {'C01': ' In-place conj / transpose on trains with one ndarray object at several positions; norm = 0 in uniform(); calls under a strict floating-point / warnings environment.',
 'C02': ' np.matrix / masked-array matrices for rank_tensordot; the diag selection as a one-shot iterable; calls under a strict floating-point / warnings environment.',
 'C05': ' Trains with one ndarray object at several positions; exactly graded diagonal tensors (singular-value ratios below machine epsilon, closed-form reference).',
 'C06': ' Augmented assignment x *= c as an in-place consumer.',
 'C07': " 'No rank bound' written as float('inf') / math.inf / np.float64('inf'); the right-hand side as initial guess (one object in two positions).",
 'C08': ' Runs followed over 12 sweep counts.',
 'C09': ' 1200-1800 normalised explicit Euler steps with amplification per step; the initial value as initial guess.',
 'C11': ' ode.krylov under a strict floating-point / warnings environment.',
 'C15': ' User functions of a point that mix a coordinate with an axis-free reduction.',
 'C16': ' User functions of a point that mix a coordinate with an axis-free reduction (gram / kernel-based MANDy).'}
EXTRA6 = {'C03': ' Partial sweeps with per-bond rank lists that do not bind.',
 'C13': ' qft / iqft on 17-128 qubits (finite entries, exact unitarity of every gate group from its cores); malformed returned trains are a violation.',
 'C14': ' The caller edits returned gradients / Hessians in place and asks the same object again.',
 'C15': ' The owner edits a transformed data tensor in place, later constructions follow.',
 'C17': ' Inputs compared again after the returned modes were edited in place.',
 'C18': ' A failing eigen-equation is attributed to an inaccurate numpy.linalg.eig result only if that is observed at the reduced-matrix hook (known finding).',
 'C20': ' Calls with warnings turned into errors.'}
PRIMER = ' Three of four shards start with an unmonitored battery of library calls on float32 / complex64 / complex128 operands (process history).'
for _k in TABLE:
    TABLE[_k]['text'] = TABLE[_k]['text'] + EXTRA.get(_k, '') + EXTRA2.get(_k, '') + EXTRA3.get(_k, '') + EXTRA4.get(_k, '') + EXTRA5.get(_k, '') + EXTRA6.get(_k, '') + PRIMER + COMMON
