#!/bin/sh
# tools/dbg.sh <prop> <workload:idx> [tier] [seed] [repo] -- run one case in-process with VERIF_DEBUG=1 (tracebacks + arguments of failing calls)
cd /verif && env VERIF_DEBUG=1 PYTHONPATH=/verif:/verif/.deps PYTHONHASHSEED=0 SCIKIT_TT_VERIF=1 OMP_NUM_THREADS=1 /venv/bin/python -m vt.shard --prop $1 --tier ${3:-thorough} --seed ${4:-0} --shard 0 --nshards 1 --out /tmp/dbg_shard.json --repo ${5:-/repo} --only $2
