#!/bin/bash
# usage: tools/mutant_eval.sh <prop> <srcdir> [tier] [extra props...]   -- applies srcdir/patch.diff to a scratch worktree of /repo HEAD,
# runs the demo on /repo and on the changed tree, then the check(s) against the changed tree
prop=$1; src=$2; tier=${3:-quick}; shift 3
name=$(echo "$src" | tr '/' '_')
wt=/tmp/mw/$name
export OMP_NUM_THREADS=1 OPENBLAS_NUM_THREADS=1
mkdir -p /tmp/mw
git -C /repo worktree remove --force $wt >/dev/null 2>&1
git -C /repo worktree add -q --detach $wt HEAD || exit 9
if ! git -C $wt apply $src/patch.diff 2>/tmp/mw/apply_$name.err; then
  if ! git -C $wt apply --3way $src/patch.diff 2>>/tmp/mw/apply_$name.err; then
    echo "RESULT $prop $src: PATCH DOES NOT APPLY ($(head -c 200 /tmp/mw/apply_$name.err | tr '\n' ' '))"; git -C /repo worktree remove --force $wt; exit 8
  fi
fi
( cd /repo && PYTHONPATH=/repo timeout 600 /venv/bin/python $src/demo.py >/tmp/mw/demo_base_$name.log 2>&1 ); d0=$?
( cd $wt && PYTHONPATH=$wt timeout 600 /venv/bin/python $src/demo.py >/tmp/mw/demo_mut_$name.log 2>&1 ); d1=$?
res=""
for p in $prop "$@"; do
  ( cd /verif && ./check $p --tier $tier --repo $wt --no-evidence >/tmp/mw/check_${p}_$name.log 2>&1 ); c=$?
  nv=$(grep -c "^VIOLATION" /tmp/mw/check_${p}_$name.log)
  res="$res $p:exit=$c,viol=$nv"
done
echo "RESULT $prop $src: demo_unchanged=$d0 demo_changed=$d1 checks:$res"
git -C /repo worktree remove --force $wt
