#!/bin/bash
# For every "fix:" commit of /repo: re-introduce the original defect (reverse patch) on a scratch worktree of HEAD and
# require the check of the property it belongs to to report a violation.   usage: tools/revert_battery.sh [tier]
tier=${1:-quick}
declare -A PROP=( [de3245c]=C01 [7a23391]=C01 [fedfc91]=C02 [571e6e0]=C02 [38dab89]=C06 [dbadff5]=C06 [e16fa69]=C08 [80f5091]=C08 [024510a]=C06 [24868c3]=C11 [a40ca72]=C12 [d312027]=C06 [d754800]=C17 [e0ffa7a]=C18 [83c010f]=C18 [c6d02f0]=C06 [7e2c594]=C06 [49ac9a3]=C19 [2cdb79b]=C15 [025e641]=C11 [13cec84]=C11 [239cbd9]=C15 [ecc01c3]=C02 [1857b8a]=C02 [17a7ea8]=C17 [d55fb9f]=C08 [e2b013e]=C14 [af30752]=C12 [6ce548b]=C02 [691389d]=C11 [cb990e3]=C11 [8e8d10b]=C04 [1dca145]=C05 )
mkdir -p /tmp/mw /verif/seeded
for h in ${ONLY:-de3245c 7a23391 fedfc91 571e6e0 38dab89 dbadff5 e16fa69 80f5091 024510a 24868c3 a40ca72 d312027 d754800 e0ffa7a 83c010f c6d02f0 7e2c594 49ac9a3 2cdb79b 025e641 13cec84 239cbd9 ecc01c3 1857b8a 17a7ea8 d55fb9f e2b013e af30752 6ce548b 691389d cb990e3 8e8d10b 1dca145}; do
  p=${PROP[$h]}
  dir=/verif/seeded/R-$h
  mkdir -p $dir
  git -C /repo diff $h $h^ > $dir/patch.diff
  # 83c010f (aliased AMUSEt results) was followed by two commits on the same lines (stale row_dims): its defect is re-introduced
  # together with theirs (reverse of all three on tedmd.py)
  if [ $h = 83c010f ]; then git -C /repo diff 7e2c594 83c010f^ -- scikit_tt/data_driven/tedmd.py > $dir/patch.diff; fi
  # a later repair touched the same lines (571e6e0 <- 1857b8a): the hand-rebased reverse patch kept beside it is used instead
  if [ -f $dir/override.diff ]; then cp $dir/override.diff $dir/patch.diff; fi
  wt=/tmp/mw/rev_$h
  git -C /repo worktree remove --force $wt >/dev/null 2>&1
  git -C /repo worktree add -q --detach $wt HEAD
  if ! git -C $wt apply $dir/patch.diff 2>/dev/null; then echo "R-$h $p: reverse patch does not apply"; git -C /repo worktree remove --force $wt; continue; fi
  ( cd /verif && ./check $p --tier $tier --repo $wt --no-evidence > /tmp/mw/rev_$h.log 2>&1 ); c=$?
  nv=$(grep -c "^VIOLATION" /tmp/mw/rev_$h.log)
  subj=$(git -C /repo log --format=%s -1 $h)
  echo "R-$h $p exit=$c violations=$nv   ($subj)"
  cat > $dir/meta.json <<EOM
{"id": "R-$h", "property": "$p", "origin": "reverse of repository commit $h (re-introduces the original defect of the pinned tree; the pinned tree passed the existing tests with it)",
 "what": "$(echo $subj | sed 's/"/\\"/g')", "ran": "./check $p --tier $tier --repo <scratch worktree of HEAD + patch>", "result": "exit=$c violation_classes=$nv"}
EOM
  git -C /repo worktree remove --force $wt
done
