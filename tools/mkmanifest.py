#!/venv/bin/python
"""(re)generate MANIFEST.json from the table below; run from /verif"""
import json, os, sys
HERE = os.path.dirname(os.path.dirname(os.path.abspath(__file__)))
props = [json.loads(l) for l in open(os.path.join(HERE, 'properties.jsonl'))]
sys.path.insert(0, HERE)
from tools.manifest_table import TABLE, NOT_YET

checks, na = [], []
for p in props:
    pid = p['id']
    if pid in TABLE:
        t = TABLE[pid]
        checks.append({
            'property_id': pid,
            'quick_cmd': './check %s --tier quick' % pid,
            'thorough_cmd': './check %s --tier thorough' % pid,
            'evidence_file': 'evidence/%s.json' % pid,
            'replay_cmd_template': './check %s --replay {path}' % pid,
            'engine': 'vt',
            'level_claimed': {'category': 'exploration', 'text': t['text'], 'design_ref': t.get('design_ref', 'DESIGN.md section 4, ' + pid)},
            'level_note': t['note'],
            'technique': t['technique'],
        })
    else:
        na.append({'property_id': pid, 'reason': NOT_YET.get(pid, 'check not built yet in this round (runtime monitors for it are planned in DESIGN.md section 4); not claimed')})
man = {
    'version': 1,
    'setup_cmd': '/venv/bin/python -m pip install --quiet --no-index --find-links /opt/veriftools/wheels --target .deps icontract deal || true',
    'hooks': {'guard': 'SCIKIT_TT_VERIF',
              'enable': 'no source hooks: the harness wraps attributes of the imported modules at run time (vt/probe.py) and refuses to arm unless SCIKIT_TT_VERIF=1 (set by ./check for its shard processes); the library is imported from /repo working tree by every shard process',
              'baseline_off_cmd': 'cd /repo && /venv/bin/python -m pytest -ra -q -p no:cacheprovider --timeout=900 --continue-on-collection-errors',
              'source_commits': [], 'add_only': True},
    'engines': [{'name': 'vt', 'path': 'vt/', 'serves_properties': [c['property_id'] for c in checks],
                 'kind_free_text': 'runtime monitoring: contracts on the real functions (own probe layer + icontract class invariant), hooks on solver internals, LAPACK-boundary alias observer, offline trace checkers; sharded seeded workloads'}],
    'checks': checks,
    'not_applicable': na,
    'notes': 'exit 0 held / 1 violation / 2 inconclusive. VERIF_SEED and VERIF_TIER are honoured. Known findings: known_findings.json (mechanism-keyed).',
}
json.dump(man, open(os.path.join(HERE, 'MANIFEST.json'), 'w'), indent=1)
print('claimed', [c['property_id'] for c in checks], 'not claimed', len(na))
