#!/venv/bin/python
"""tools/seed_table.py : regenerate the seeded-change table in DESIGN.md (between the SEEDTABLE markers) from seeded/*/meta.json"""
import json, os, re
rows = ['| id | property | caught by | status |', '|---|---|---|---|']
for sid in sorted(os.listdir('/verif/seeded')):
    mp = '/verif/seeded/%s/meta.json' % sid
    if not os.path.exists(mp):
        continue
    m = json.load(open(mp))
    st = (m.get('status') or (m.get('what', '') + ' -> ' + m.get('result', ''))).replace('|', '/').replace('\n', ' ')
    cb = ','.join(m.get('caught_by', [m['property']]))
    rows.append('| %s | %s | %s | %s |' % (sid, m['property'], cb, st[:260]))
table = '<!-- SEEDTABLE:BEGIN -->\n' + '\n'.join(rows) + '\n<!-- SEEDTABLE:END -->'
p = '/verif/DESIGN.md'
s = open(p).read()
if '@@SEEDTABLE@@' in s:
    s = s.replace('@@SEEDTABLE@@', table)
else:
    s = re.sub(r'<!-- SEEDTABLE:BEGIN -->.*?<!-- SEEDTABLE:END -->', lambda m_: table, s, flags=re.S)
open(p, 'w').write(s)
print(len(rows) - 2, 'rows')
