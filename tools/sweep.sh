#!/bin/bash
# tools/sweep.sh <out> [quick seeds] [thorough seeds] : every property at several VERIF_SEED values on the unchanged tree (no evidence written);
# one line per run: "<prop> <tier> <seed> exit=<code>" plus the VIOLATION / INCONCLUSIVE lines
out=$1; qs=${2:-"1 2 3 4 5 6 7 8"}; ts=${3:-"0 1 2"}
: > $out
for s in $qs; do for p in C01 C02 C03 C04 C05 C06 C07 C08 C09 C10 C11 C12 C13 C14 C15 C16 C17 C18 C19 C20; do
  PYTHONHASHSEED=0 VERIF_SEED=$s ./check $p --tier quick --no-evidence > /tmp/sweep_$$.log 2>&1; c=$?
  echo "$p quick $s exit=$c $(grep -E 'tier=' /tmp/sweep_$$.log | sed 's/.*cases=/cases=/')" >> $out; grep -E "^VIOLATION|INCONC|^  ->|oracle err" /tmp/sweep_$$.log | head -8 >> $out
done; done
for s in $ts; do for p in C01 C02 C03 C04 C05 C06 C07 C08 C09 C10 C11 C12 C13 C14 C15 C16 C17 C18 C19 C20; do
  PYTHONHASHSEED=0 VERIF_SEED=$s ./check $p --tier thorough --no-evidence > /tmp/sweep_$$.log 2>&1; c=$?
  echo "$p thorough $s exit=$c $(grep -E 'tier=' /tmp/sweep_$$.log | sed 's/.*cases=/cases=/')" >> $out; grep -E "^VIOLATION|INCONC|^  ->|oracle err" /tmp/sweep_$$.log | head -8 >> $out
done; done
rm -f /tmp/sweep_$$.log; echo done >> $out
