#!/venv/bin/python
"""tools/seed_add.py <seed_id> <prop> <srcdir> <status> -- copy a confirmed seeded change into /verif/seeded/<seed_id>/"""
import json, os, shutil, sys, subprocess
sid, prop, src, status = sys.argv[1:5]
dst = os.path.join('/verif/seeded', sid)
os.makedirs(dst, exist_ok=True)
shutil.copy(os.path.join(src, 'patch.diff'), os.path.join(dst, 'patch.diff'))
shutil.copy(os.path.join(src, 'demo.py'), os.path.join(dst, 'demo.py'))
notes = open(os.path.join(src, 'notes.md')).read() if os.path.exists(os.path.join(src, 'notes.md')) else ''
meta = {'id': sid, 'property': prop, 'status': status,
        'origin': 'fresh sub-agent given only the property text and a scratch worktree (no access to /verif)',
        'needs_to_manifest': '', 'author_notes': notes[:3000],
        'confirmed_by_me': {'applies_to_repo_head': subprocess.run(['git', '-C', '/repo', 'rev-parse', '--short', 'HEAD'], capture_output=True, text=True).stdout.strip()}}
mp = os.path.join(dst, 'meta.json')
if os.path.exists(mp):
    old = json.load(open(mp))
    old.update({k: v for k, v in meta.items() if k in ('status',)})
    meta = old
json.dump(meta, open(mp, 'w'), indent=1)
print('saved', dst)
