#!/venv/bin/python
"""tools/mksignatures.py : record the documented parameter order and defaults of the public functions (vt/signatures.json).
The harness calls a share of the monitored functions POSITIONALLY in this recorded order, so that a change that re-orders
optional parameters (keyword callers unaffected) is seen.  Re-run only when the repository's API changes on purpose."""
import inspect, json, sys, types, importlib
sys.path.insert(0, '/repo')
m = types.ModuleType('matplotlib'); p = types.ModuleType('matplotlib.pyplot'); m.pyplot = p
sys.modules['matplotlib'] = m; sys.modules['matplotlib.pyplot'] = p
import numpy as np
MODS = {'sle': 'scikit_tt.solvers.sle', 'evp': 'scikit_tt.solvers.evp', 'ode': 'scikit_tt.solvers.ode', 'slim': 'scikit_tt.slim', 'ulam': 'scikit_tt.data_driven.ulam',
        'transform': 'scikit_tt.data_driven.transform', 'regression': 'scikit_tt.data_driven.regression', 'tdmd': 'scikit_tt.data_driven.tdmd',
        'tedmd': 'scikit_tt.data_driven.tedmd', 'tgedmd': 'scikit_tt.data_driven.tgedmd', 'quantum_computation': 'scikit_tt.quantum_computation', 'models': 'scikit_tt.models'}
out = {}
def enc(v):
    if v is inspect._empty:
        return {'required': True}
    if isinstance(v, float) and v == np.inf:
        return {'default': 'inf'}
    if v is None or isinstance(v, (bool, int, float, str)):
        return {'default': v}
    if isinstance(v, list) and not v:
        return {'default': []}
    return {'default': None, 'unrepresentable': repr(v)}
for short, mod in MODS.items():
    M = importlib.import_module(mod)
    for n, f in vars(M).items():
        if isinstance(f, types.FunctionType) and f.__module__ == mod and not n.startswith('_'):
            out[short + '.' + n] = [[k, enc(v.default)] for k, v in inspect.signature(f).parameters.items()]
# the TT class: methods as 'TT.<name>' (without self), module-level constructors / helpers as 'tt.<name>'
TTM = importlib.import_module('scikit_tt.tensor_train')
for n, f in vars(TTM.TT).items():
    if isinstance(f, types.FunctionType) and not n.startswith('_'):
        out['TT.' + n] = [[k, enc(v.default)] for k, v in list(inspect.signature(f).parameters.items())[1:]]
for n, f in vars(TTM).items():
    if isinstance(f, types.FunctionType) and f.__module__ == 'scikit_tt.tensor_train' and not n.startswith('_'):
        out['tt.' + n] = [[k, enc(v.default)] for k, v in inspect.signature(f).parameters.items()]
json.dump(out, open('/verif/vt/signatures.json', 'w'), indent=0, sort_keys=True)
print(len(out), 'signatures')
